---- MODULE EmitProbe ----
EXTENDS Integers, Sequences, TLC, Json, IOUtils
VARIABLES prog, depth
Stmts == {"ret", "print", "brk"}
Init == prog = <<>> /\ depth = 0
Next == /\ depth < 3
        /\ \E s \in Stmts : prog' = Append(prog, [k |-> s, n |-> depth]) /\ depth' = depth + 1
Emit == PrintT("@@CASE " \o ToJson([prog |-> prog, verdict |-> IF Len(prog) > 0 /\ prog[Len(prog)].k = "ret" THEN "accept" ELSE "reject"]))
Inv == Emit
Out == IOEnv.VERIF_OUT
====
