import json, random, subprocess, os, sys
random.seed(int(sys.argv[1]) if len(sys.argv)>1 else 1)
N=int(sys.argv[2]) if len(sys.argv)>2 else 40
TYPES=[("i8",True,8),("u8",False,8),("i16",True,16),("u16",False,16),("i32",True,32),("u32",False,32),("i64",True,64),("u64",False,64)]
def ty(t): return {"s":t[1],"b":t[2]}
def rng(t): return (-(1<<(t[2]-1)), (1<<(t[2]-1))-1) if t[1] else (0,(1<<t[2])-1)
def lit(t, v):
    return {"k":"int","ty":ty(t),"neg":v<0,"d":[int(c) for c in str(abs(v))]}
def lit_src(v):  # negative literals rendered as (0 - n) typed by context
    return str(v) if v>=0 else "(0 - %d)"%(-v)
def boundary(t):
    lo,hi=rng(t); c=[lo,lo+1,hi,hi-1,0,1,2,3,7,100%max(hi,1)]
    if t[1]: c+=[-1,-2]
    return random.choice(c)
class G:
    def __init__(s): s.n=0
    def fresh(s): s.n+=1; return "v%d"%s.n
def gen_prog(g):
    t=random.choice(TYPES)
    stmts=[]; src=[]; vars_=[]
    def operand():
        if vars_ and random.random()<0.6:
            n=random.choice(vars_); return {"k":"var","n":n}, n
        v=boundary(t); return lit(t,v), lit_src(v)
    for _ in range(random.randint(2,4)):
        n=g.fresh(); v=boundary(t); stmts.append({"k":"let","n":n,"e":lit(t,v)}); src.append("    let %s: %s = %s;"%(n,t[0],lit_src(v))); vars_.append(n)
    for _ in range(random.randint(4,10)):
        r=random.random()
        if r<0.55:
            op=random.choice(["+","-","*","/","%"])
            a,asrc=operand()
            if op in "/%":
                dv=random.choice([1,2,3,5,7]); b,bsrc=lit(t,dv),str(dv)
            else: b,bsrc=operand()
            n=g.fresh()
            stmts.append({"k":"let","n":n,"e":{"k":"bin","op":op,"l":a,"r":b,"ty":ty(t)}}); src.append("    let %s: %s = %s %s %s;"%(n,t[0],asrc,op,bsrc)); vars_.append(n)
        elif r<0.8:
            n=random.choice(vars_); stmts.append({"k":"print","e":{"k":"var","n":n}}); src.append("    io::Println(%s);"%n)
        else:
            a=random.choice(vars_); b=random.choice(vars_); op=random.choice(["<","<=",">",">=","==","!="])
            stmts.append({"k":"if","c":{"k":"cmp","op":op,"l":{"k":"var","n":a},"r":{"k":"var","n":b}},"t":[{"k":"print","e":{"k":"var","n":a}}],"e":[{"k":"print","e":{"k":"var","n":b}}]})
            src.append("    if %s %s %s { io::Println(%s); } else { io::Println(%s); }"%(a,op,b,a,b))
    # a recursive function on the same type: sum-like with wrap
    f={"params":[{"n":"x"},{"n":"k"}],"body":[
        {"k":"if","c":{"k":"cmp","op":"==","l":{"k":"var","n":"k"},"r":lit(t,0)},"t":[{"k":"ret","e":{"k":"var","n":"x"}}],"e":[]},
        {"k":"let","n":"y","e":{"k":"bin","op":"*","l":{"k":"var","n":"x"},"r":lit(t,3),"ty":ty(t)}},
        {"k":"let","n":"k2","e":{"k":"bin","op":"-","l":{"k":"var","n":"k"},"r":lit(t,1),"ty":ty(t)}},
        {"k":"ret","e":{"k":"call","f":"f","args":[{"k":"bin","op":"+","l":{"k":"var","n":"y"},"r":lit(t,1),"ty":ty(t)},{"k":"var","n":"k2"}]}}]}
    fsrc="fn f(x: %s, k: %s) -> %s {\n    if k == 0 { return x; }\n    let y: %s = x * 3;\n    let k2: %s = k - 1;\n    return f(y + 1, k2);\n}\n"%((t[0],)*5)
    a=random.choice(vars_); n=g.fresh(); kk=random.randint(1,6)
    stmts.append({"k":"let","n":n,"e":{"k":"call","f":"f","args":[{"k":"var","n":a},lit(t,kk)]}}); src.append("    let %s: %s = f(%s, %d);"%(n,t[0],a,kk))
    stmts.append({"k":"print","e":{"k":"var","n":n}}); src.append("    io::Println(%s);"%n)
    # while loop with wrapping accumulator
    acc=g.fresh(); i=g.fresh(); lim=random.randint(1,9)
    stmts += [{"k":"let","n":acc,"e":lit(t,1)},{"k":"let","n":i,"e":lit(t,0)},
      {"k":"while","c":{"k":"cmp","op":"<","l":{"k":"var","n":i},"r":lit(t,lim)},"b":[
         {"k":"assign","n":acc,"e":{"k":"bin","op":"*","l":{"k":"var","n":acc},"r":lit(t,7),"ty":ty(t)}},
         {"k":"assign","n":i,"e":{"k":"bin","op":"+","l":{"k":"var","n":i},"r":lit(t,1),"ty":ty(t)}}]},
      {"k":"print","e":{"k":"var","n":acc}}]
    src += ["    let %s: %s = 1;"%(acc,t[0]),"    let %s: %s = 0;"%(i,t[0]),"    while %s < %d {"%(i,lim),"        %s = %s * 7;"%(acc,acc),"        %s = %s + 1;"%(i,i),"    }","    io::Println(%s);"%acc]
    prog={"funcs":{"f":f},"main":stmts}
    text='import "std/io";\n\n'+fsrc+"\nfn main() {\n"+"\n".join(src)+"\n}\n"
    return prog,text
g=G(); out=open("cases.ndjson","w"); ok=0; rej=0
os.makedirs("w",exist_ok=True)
env=dict(os.environ, FERRET_LIBS_PATH="/tmp/fb/libs")
for k in range(N):
    prog,text=gen_prog(g)
    open("w/p.fer","w").write(text)
    if os.path.exists("w/p.out"): os.remove("w/p.out")
    c=subprocess.run(["/tmp/fb/ferret","-o","p.out","p.fer"],cwd="w",env=env,capture_output=True,text=True)
    if c.returncode!=0 or not os.path.exists("w/p.out"):
        rej+=1; open("w/rej%d.fer"%rej,"w").write(text+"\n/*"+c.stderr[-600:]+"*/"); continue
    r=subprocess.run(["./p.out"],cwd="w",capture_output=True,text=True)
    out.write(json.dumps({"prog":prog,"trace":{"lines":r.stdout.split("\n")[:-1],"halt":r.returncode},"src":text})+"\n"); ok+=1
print("accepted",ok,"rejected",rej)
