CONSTANTS User = {1,2,3,4}
Entry = 1
G = 0
MaxLits = 0
SPECIFICATION Spec
INVARIANT Acyclic CycleRejected DagBuilds Once
CHECK_DEADLOCK FALSE
