---- MODULE BorrowEnumProbe ----
EXTENDS Integers, Sequences, FiniteSets, TLC
CONSTANTS MaxLen, MaxRefs
Places == {<<"a">>, <<"s">>, <<"s","X">>, <<"s","Y">>}
Refs == 1..MaxRefs
VARIABLES hist, loans, illegal
\* loans : ref -> [place, mut, taint] for declared refs
IsPrefix(p, q) == Len(p) <= Len(q) /\ SubSeq(q, 1, Len(p)) = p
Overlap(p, q) == IsPrefix(p, q) \/ IsPrefix(q, p)
Declared == DOMAIN loans
NextRef == IF Declared = {} THEN 1 ELSE (CHOOSE r \in Declared : \A x \in Declared : x <= r) + 1
\* a new access of kind k ("r" read / "w" write / "bs" shared borrow / "bm" mut borrow) to place p taints conflicting loans
Conflicts(l, p, k) == Overlap(l.place, p) /\ (l.mut \/ k \in {"w", "bm"})
Taint(p, k) == [r \in Declared |-> IF Conflicts(loans[r], p, k) THEN [loans[r] EXCEPT !.taint = TRUE] ELSE loans[r]]
Borrow(p, m) == /\ NextRef <= MaxRefs
                /\ LET t == Taint(p, IF m THEN "bm" ELSE "bs") IN
                   loans' = [r \in Declared \cup {NextRef} |-> IF r = NextRef THEN [place |-> p, mut |-> m, taint |-> FALSE] ELSE t[r]]
                /\ hist' = Append(hist, [k |-> "borrow", r |-> NextRef, p |-> p, m |-> m])
                /\ UNCHANGED illegal
Access(p, k) == /\ loans' = Taint(p, k)
                /\ hist' = Append(hist, [k |-> k, p |-> p])
                /\ UNCHANGED illegal
Use(r, w) == /\ r \in Declared /\ (w => loans[r].mut)
             /\ illegal' = (illegal \/ loans[r].taint)
             \* a write through r is itself an access to the place by r: taints the *other* overlapping loans
             /\ loans' = [x \in Declared |-> IF x # r /\ Conflicts(loans[x], loans[r].place, IF w THEN "w" ELSE "r") THEN [loans[x] EXCEPT !.taint = TRUE] ELSE loans[x]]
             /\ hist' = Append(hist, [k |-> IF w THEN "wthru" ELSE "use", r |-> r])
Init == hist = <<>> /\ loans = <<>> /\ illegal = FALSE
Next == /\ Len(hist) < MaxLen /\ ~illegal
        /\ \/ \E p \in Places, m \in BOOLEAN : Borrow(p, m)
           \/ \E p \in Places, k \in {"r", "w"} : Access(p, k)
           \/ \E r \in Refs, w \in BOOLEAN : Use(r, w)
Spec == Init /\ [][Next]_<<hist, loans, illegal>>
AbsView == <<loans, illegal>>
====
