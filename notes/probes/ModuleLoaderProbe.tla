---- MODULE ModuleLoaderProbe ----
EXTENDS Integers, Sequences, FiniteSets, TLC
CONSTANTS User, Entry, G, MaxLits
Mods == User \cup {G}
VARIABLES imports, nlits, seen, pc, idx, litsLeft, depGraph, cycErr, wg, ctr, names, mainpc
vars == <<imports, nlits, seen, pc, idx, litsLeft, depGraph, cycErr, wg, ctr, names, mainpc>>

\* ordered import list = ascending order of a subset (probe); User modelled as naturals
SeqOf(S) == LET RECURSIVE F(_) 
                F(T) == IF T = {} THEN <<>> ELSE LET m == CHOOSE x \in T : \A y \in T : x <= y IN <<m>> \o F(T \ {m})
            IN F(S)

Reach(g, from) == \* set of nodes reachable from `from` following g
  LET RECURSIVE R(_,_)
      R(front, acc) == IF front = {} THEN acc
                       ELSE LET nxt == UNION { {g[n][i] : i \in 1..Len(g[n])} : n \in front } \ acc
                            IN R(nxt, acc \cup nxt)
  IN R({from}, {from})

Init == /\ imports \in [User -> SUBSET User]
        /\ nlits \in [User -> 0..MaxLits]
        /\ seen = {} /\ pc = [m \in Mods |-> "idle"] /\ idx = [m \in Mods |-> 1]
        /\ litsLeft = [m \in Mods |-> 0]
        /\ depGraph = [m \in Mods |-> <<>>] /\ cycErr = {} /\ wg = 0 /\ ctr = 0
        /\ names = [m \in Mods |-> <<>>] /\ mainpc = "spawnG"

Imp(m) == IF m = G THEN <<>> ELSE SeqOf(imports[m])

Claim(m) == IF m \in seen THEN UNCHANGED <<seen, pc, wg, litsLeft>>
            ELSE /\ seen' = seen \cup {m} /\ pc' = [pc EXCEPT ![m] = "parse"] /\ wg' = wg + 1
                 /\ litsLeft' = [litsLeft EXCEPT ![m] = IF m = G THEN 0 ELSE nlits[m]]

MainSpawnG == mainpc = "spawnG" /\ Claim(G) /\ mainpc' = "spawnE" /\ UNCHANGED <<imports, nlits, idx, depGraph, cycErr, ctr, names>>
MainSpawnE == mainpc = "spawnE" /\ Claim(Entry) /\ mainpc' = "wait" /\ UNCHANGED <<imports, nlits, idx, depGraph, cycErr, ctr, names>>
MainWait == mainpc = "wait" /\ wg = 0 /\ mainpc' = "done" /\ UNCHANGED <<imports, nlits, seen, pc, idx, litsLeft, depGraph, cycErr, wg, ctr, names>>

GenLit(m) == /\ pc[m] = "parse" /\ litsLeft[m] > 0
             /\ ctr' = ctr + 1 /\ names' = [names EXCEPT ![m] = Append(@, ctr + 1)]
             /\ litsLeft' = [litsLeft EXCEPT ![m] = @ - 1]
             /\ UNCHANGED <<imports, nlits, seen, pc, idx, depGraph, cycErr, wg, mainpc>>
FinishParse(m) == /\ pc[m] = "parse" /\ litsLeft[m] = 0
                  /\ pc' = [pc EXCEPT ![m] = IF m = G THEN "done" ELSE "depG"]
                  /\ wg' = IF m = G THEN wg - 1 ELSE wg
                  /\ UNCHANGED <<imports, nlits, seen, idx, litsLeft, depGraph, cycErr, ctr, names, mainpc>>
AddDep(m, d) == \* atomic under ctx.mu
   IF m \in Reach(depGraph, d) THEN /\ cycErr' = cycErr \cup {<<m, d>>} /\ UNCHANGED depGraph
   ELSE /\ depGraph' = [depGraph EXCEPT ![m] = IF \E i \in 1..Len(@) : @[i] = d THEN @ ELSE Append(@, d)]
        /\ UNCHANGED cycErr
DepG(m) == /\ pc[m] = "depG" /\ AddDep(m, G)
           /\ pc' = [pc EXCEPT ![m] = "dep"] /\ idx' = [idx EXCEPT ![m] = 1]
           /\ UNCHANGED <<imports, nlits, seen, litsLeft, wg, ctr, names, mainpc>>
Dep(m) == /\ pc[m] = "dep"
          /\ IF idx[m] > Len(Imp(m)) THEN /\ pc' = [pc EXCEPT ![m] = "spawn"] /\ idx' = [idx EXCEPT ![m] = 1] /\ UNCHANGED <<depGraph, cycErr>>
             ELSE /\ AddDep(m, Imp(m)[idx[m]]) /\ idx' = [idx EXCEPT ![m] = @ + 1] /\ UNCHANGED pc
          /\ UNCHANGED <<imports, nlits, seen, litsLeft, wg, ctr, names, mainpc>>
Spawn(m) == /\ pc[m] = "spawn"
            /\ IF idx[m] > Len(Imp(m))
               THEN /\ pc' = [pc EXCEPT ![m] = "done"] /\ wg' = wg - 1 /\ UNCHANGED <<seen, litsLeft, idx>>
               ELSE LET d == Imp(m)[idx[m]] IN
                    /\ idx' = [idx EXCEPT ![m] = @ + 1]
                    /\ IF d \in seen THEN UNCHANGED <<seen, pc, wg, litsLeft>>
                       ELSE /\ seen' = seen \cup {d} /\ pc' = [pc EXCEPT ![d] = "parse"] /\ wg' = wg + 1
                            /\ litsLeft' = [litsLeft EXCEPT ![d] = nlits[d]]
            /\ UNCHANGED <<imports, nlits, depGraph, cycErr, ctr, names, mainpc>>
Next == MainSpawnG \/ MainSpawnE \/ MainWait \/ \E m \in Mods : GenLit(m) \/ FinishParse(m) \/ DepG(m) \/ Dep(m) \/ Spawn(m)
Spec == Init /\ [][Next]_vars

Acyclic == \A m \in Mods : \A i \in 1..Len(depGraph[m]) : m \notin Reach(depGraph, depGraph[m][i])
RECURSIVE ReachI(_,_)
ReachI(front, acc) == IF front = {} THEN acc ELSE LET nxt == (UNION {imports[n] : n \in front \cap User}) \ acc IN ReachI(nxt, acc \cup nxt)
Live == ReachI({Entry}, {Entry})
HasCycle == \E m \in Live : m \in ReachI(imports[m], imports[m])
Done == mainpc = "done"
CycleRejected == Done => (HasCycle => cycErr # {})
DagBuilds == Done => (~HasCycle => (cycErr = {} /\ \A m \in Live : {depGraph[m][i] : i \in 1..Len(depGraph[m])} = imports[m] \cup {G}))
Once == Done => (seen = Live \cup {G} /\ \A m \in seen : pc[m] = "done")
View == <<imports, nlits, seen, pc, idx, litsLeft, depGraph, cycErr, wg, ctr, names, mainpc>>
====
