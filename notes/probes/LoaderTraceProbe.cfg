SPECIFICATION TraceSpec
INVARIANT Acyclic
POSTCONDITION TraceAccepted
CHECK_DEADLOCK FALSE
