---- MODULE LimbSubProbe ----
EXTENDS Integers, Sequences, TLC
CONSTANTS W, K
B == 2^W
MAXV == B^K
VARIABLES a, b
\* value of little-endian limb sequence
RECURSIVE Val(_)
Val(s) == IF s = <<>> THEN 0 ELSE Head(s) + B * Val(Tail(s))
Limbs == [1..K -> 0..(B-1)]
\* transcription of ferret_sub_limbs: bi = b[i] + borrow (wraps); borrow = a[i] < bi; out = a[i] - bi (wraps)
RECURSIVE SubFrom(_,_,_,_)
SubFrom(x, y, i, borrow) ==
  IF i > K THEN <<>>
  ELSE LET bi == (y[i] + borrow) % B
           nb == IF x[i] < bi THEN 1 ELSE 0
           o  == (x[i] - bi + B) % B
       IN <<o>> \o SubFrom(x, y, i+1, nb)
Sub(x, y) == SubFrom(x, y, 1, 0)
Init == a \in Limbs /\ b \in Limbs
Next == UNCHANGED <<a, b>>
SubCorrect == Val(Sub(a, b)) = (Val(a) - Val(b) + MAXV) % MAXV
====
