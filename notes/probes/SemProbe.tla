---- MODULE SemProbe ----
EXTENDS Integers, Sequences, TLC, Json, BigNumLibProbe
Cases == ndJsonDeserialize("cases.ndjson")      \* each: [prog |-> P, trace |-> [lines |-> <<str>>, halt |-> "exit0"]]
\* ---- signed big integers: [neg, mag] ----
Z(neg, mag) == [neg |-> (neg /\ mag # <<>>), mag |-> mag]
ZAdd(a, b) == IF a.neg = b.neg THEN Z(a.neg, NAdd(a.mag, b.mag))
              ELSE IF NCmp(a.mag, b.mag) >= 0 THEN Z(a.neg, NSub(a.mag, b.mag)) ELSE Z(b.neg, NSub(b.mag, a.mag))
ZNeg(a) == Z(~a.neg, a.mag)
ZSub(a, b) == ZAdd(a, ZNeg(b))
ZMul(a, b) == Z(a.neg # b.neg, NMul(a.mag, b.mag))
ZCmp(a, b) == IF a.neg /\ ~b.neg THEN -1 ELSE IF ~a.neg /\ b.neg THEN 1 ELSE IF a.neg THEN NCmp(b.mag, a.mag) ELSE NCmp(a.mag, b.mag)
ZDivT(a, b) == Z(a.neg # b.neg, NDivMod(a.mag, b.mag).q)         \* truncating
ZRemT(a, b) == Z(a.neg, NDivMod(a.mag, b.mag).r)
\* wrap to `bits`, two's complement if signed
Wrap(v, ty) == LET m == NModPow2(v.mag, ty.b)
                   u == IF v.neg /\ m # <<>> THEN NSub(Pow2(ty.b), m) ELSE m      \* v mod 2^bits as natural
               IN IF ty.s /\ NCmp(u, Pow2(ty.b - 1)) >= 0 THEN Z(TRUE, NSub(Pow2(ty.b), u)) ELSE Z(FALSE, u)
RECURSIVE DigStr(_,_)
DigStr(ds, i) == IF i > Len(ds) THEN "" ELSE ToString(ds[i]) \o DigStr(ds, i+1)
ZStr(v) == (IF v.neg THEN "-" ELSE "") \o DigStr(NToDec(v.mag), 1)
\* ---- interpreter ----
RECURSIVE EvalE(_,_,_), EvalArgs(_,_,_,_,_), ExecB(_,_,_,_), ExecS(_,_,_)
Lit(e) == Z(e.neg, NFromDec(e.d))
EvalE(P, e, st) ==
  CASE e.k = "int"  -> [v |-> Wrap(Lit(e), e.ty), st |-> st]
    [] e.k = "bool" -> [v |-> e.v, st |-> st]
    [] e.k = "var"  -> [v |-> st.env[e.n], st |-> st]
    [] e.k = "bin"  -> LET a == EvalE(P, e.l, st)  b == EvalE(P, e.r, a.st) IN
         [v |-> Wrap(CASE e.op = "+" -> ZAdd(a.v, b.v) [] e.op = "-" -> ZSub(a.v, b.v) [] e.op = "*" -> ZMul(a.v, b.v)
                       [] e.op = "/" -> ZDivT(a.v, b.v) [] e.op = "%" -> ZRemT(a.v, b.v), e.ty), st |-> b.st]
    [] e.k = "cmp"  -> LET a == EvalE(P, e.l, st)  b == EvalE(P, e.r, a.st)  c == ZCmp(a.v, b.v) IN
         [v |-> CASE e.op = "<" -> c < 0 [] e.op = "<=" -> c <= 0 [] e.op = ">" -> c > 0 [] e.op = ">=" -> c >= 0
                  [] e.op = "==" -> c = 0 [] e.op = "!=" -> c # 0, st |-> b.st]
    [] e.k = "call" -> LET f == P.funcs[e.f]
                           r == EvalArgs(P, e.args, 1, st, <<>>)
                           callee == [env |-> [i \in {f.params[j].n : j \in 1..Len(f.params)} |->
                                                  r.vs[CHOOSE j \in 1..Len(f.params) : f.params[j].n = i]],
                                      out |-> r.st.out, ctl |-> "n", ret |-> FALSE]
                           after == ExecB(P, f.body, 1, callee)
                       IN [v |-> after.ret, st |-> [st EXCEPT !.out = after.out]]
EvalArgs(P, as, i, st, acc) == IF i > Len(as) THEN [vs |-> acc, st |-> st]
                               ELSE LET a == EvalE(P, as[i], st) IN EvalArgs(P, as, i+1, a.st, Append(acc, a.v))
ExecB(P, b, i, st) == IF i > Len(b) \/ st.ctl # "n" THEN st ELSE ExecB(P, b, i+1, ExecS(P, b[i], st))
Bind(env, n, v) == [x \in DOMAIN env \cup {n} |-> IF x = n THEN v ELSE env[x]]
RECURSIVE Loop(_,_,_,_)
Loop(P, s, st, fuel) == IF fuel = 0 THEN [st EXCEPT !.ctl = "fuel"] ELSE
   LET c == EvalE(P, s.c, st) IN IF ~c.v THEN c.st ELSE
   LET b == ExecB(P, s.b, 1, c.st) IN IF b.ctl # "n" THEN b ELSE Loop(P, s, b, fuel - 1)
ExecS(P, s, st) ==
  CASE s.k = "let"    -> LET a == EvalE(P, s.e, st) IN [a.st EXCEPT !.env = Bind(a.st.env, s.n, a.v)]
    [] s.k = "assign" -> LET a == EvalE(P, s.e, st) IN [a.st EXCEPT !.env = Bind(a.st.env, s.n, a.v)]
    [] s.k = "print"  -> LET a == EvalE(P, s.e, st) IN [a.st EXCEPT !.out = Append(@, ZStr(a.v))]
    [] s.k = "ret"    -> LET a == EvalE(P, s.e, st) IN [a.st EXCEPT !.ctl = "r", !.ret = a.v]
    [] s.k = "if"     -> LET c == EvalE(P, s.c, st) IN IF c.v THEN ExecB(P, s.t, 1, c.st) ELSE ExecB(P, s.e, 1, c.st)
    [] s.k = "while"  -> Loop(P, s, st, 1000)
Run(P) == ExecB(P, P.main, 1, [env |-> <<>>, out |-> <<>>, ctl |-> "n", ret |-> FALSE])
\* ---- trace validation: one step per case, the whole output compared ----
VARIABLE ci
Init == ci = 1
Next == /\ ci <= Len(Cases) /\ ci' = ci + 1
        /\ LET r == Run(Cases[ci].prog) IN
           Assert(r.out = Cases[ci].trace.lines, <<"MISMATCH", ci, r.out, Cases[ci].trace.lines>>)
====
