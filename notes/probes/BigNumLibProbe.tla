---- MODULE BigNumLibProbe ----
EXTENDS Integers, Sequences, TLC
B == 32768
\* ---------- naturals: little-endian digit sequences, normalised (no high zeros) ----------
RECURSIVE Norm(_)
Norm(a) == IF a # <<>> /\ a[Len(a)] = 0 THEN Norm(SubSeq(a, 1, Len(a)-1)) ELSE a
D(a, i) == IF i <= Len(a) THEN a[i] ELSE 0
Max(x, y) == IF x >= y THEN x ELSE y
RECURSIVE AddR(_,_,_,_,_)
AddR(a, b, i, n, c) == IF i > n THEN (IF c = 0 THEN <<>> ELSE <<c>>)
                       ELSE LET s == D(a,i) + D(b,i) + c IN <<s % B>> \o AddR(a, b, i+1, n, s \div B)
NAdd(a, b) == AddR(a, b, 1, Max(Len(a), Len(b)), 0)
RECURSIVE SubR(_,_,_,_,_)
SubR(a, b, i, n, br) == IF i > n THEN <<>>
                        ELSE LET s == D(a,i) - D(b,i) - br IN
                             IF s < 0 THEN <<s + B>> \o SubR(a, b, i+1, n, 1) ELSE <<s>> \o SubR(a, b, i+1, n, 0)
NSub(a, b) == Norm(SubR(a, b, 1, Len(a), 0))   \* requires a >= b
RECURSIVE CmpR(_,_,_)
CmpR(a, b, i) == IF i = 0 THEN 0 ELSE IF D(a,i) < D(b,i) THEN -1 ELSE IF D(a,i) > D(b,i) THEN 1 ELSE CmpR(a, b, i-1)
NCmp(a, b) == IF Len(a) < Len(b) THEN -1 ELSE IF Len(a) > Len(b) THEN 1 ELSE CmpR(a, b, Len(a))
RECURSIVE MulSR(_,_,_,_)
MulSR(a, d, i, c) == IF i > Len(a) THEN (IF c = 0 THEN <<>> ELSE <<c>>)
                     ELSE LET p == a[i] * d + c IN <<p % B>> \o MulSR(a, d, i+1, p \div B)
NMulS(a, d) == IF d = 0 THEN <<>> ELSE MulSR(a, d, 1, 0)
RECURSIVE MulR(_,_,_)
MulR(a, b, j) == IF j > Len(b) THEN <<>> ELSE LET rest == MulR(a, b, j+1) IN NAdd(NMulS(a, b[j]), IF rest = <<>> THEN <<>> ELSE <<0>> \o rest)
NMul(a, b) == IF a = <<>> \/ b = <<>> THEN <<>> ELSE MulR(a, b, 1)
RECURSIVE DivSR(_,_,_,_)
\* returns <<quotient digits (little endian, unnormalised), remainder>> processing from the top digit
DivSR(a, d, i, r) == IF i = 0 THEN <<<<>>, r>>
                     ELSE LET cur == r * B + a[i]
                              rest == DivSR(a, d, i-1, cur % d)
                          IN <<rest[1] \o <<cur \div d>>, rest[2]>>
NDivS(a, d) == LET x == DivSR(a, d, Len(a), 0) IN [q |-> Norm(x[1]), r |-> x[2]]   \* d < 2^16 so r*B+a[i] < 2^31
RECURSIVE ToDecR(_)
ToDecR(a) == IF a = <<>> THEN <<>> ELSE LET x == NDivS(a, 10) IN ToDecR(x.q) \o <<x.r>>
NToDec(a) == IF a = <<>> THEN <<0>> ELSE ToDecR(a)
RECURSIVE FromDecR(_,_,_)
FromDecR(ds, i, acc) == IF i > Len(ds) THEN acc ELSE FromDecR(ds, i+1, NAdd(NMulS(acc, 10), IF ds[i] = 0 THEN <<>> ELSE <<ds[i]>>))
NFromDec(ds) == FromDecR(ds, 1, <<>>)
RECURSIVE Pow2(_)
Pow2(k) == IF k < 15 THEN <<2^k>> ELSE <<0>> \o Pow2(k - 15)
\* a mod 2^k
NModPow2(a, k) == LET full == k \div 15  rem == k % 15
                      lo == SubSeq(a, 1, IF Len(a) < full THEN Len(a) ELSE full)
                      hi == IF rem = 0 \/ Len(a) <= full THEN <<>> ELSE <<a[full+1] % (2^rem)>>
                  IN Norm(lo \o hi)
\* general division by binary shift-subtract on bits of a (a, b naturals, b # 0)
NBit(a, i) == (D(a, (i \div 15) + 1) \div (2^(i % 15))) % 2
NShl1(a, bit) == LET x == NAdd(a, a) IN IF bit = 1 THEN NAdd(x, <<1>>) ELSE x
RECURSIVE DivR(_,_,_,_,_)
DivR(a, b, i, q, r) == IF i < 0 THEN [q |-> q, r |-> r]
                       ELSE LET r2 == NShl1(r, NBit(a, i)) IN
                            IF NCmp(r2, b) >= 0 THEN DivR(a, b, i-1, NShl1(q, 1), NSub(r2, b))
                            ELSE DivR(a, b, i-1, NShl1(q, 0), r2)
NDivMod(a, b) == DivR(a, b, Len(a)*15 - 1, <<>>, <<>>)
====
