---- MODULE InterpThroughputProbe ----
EXTENDS Integers, Sequences, TLC, Json
Progs == ndJsonDeserialize("progs.ndjson")
VARIABLES pi, pc, env, out
Wrap(v) == ((v + 128) % 256) - 128
RECURSIVE Eval(_,_)
Eval(e, en) ==
  CASE e.k = "lit" -> e.v
    [] e.k = "var" -> en[e.n]
    [] e.k = "bin" -> LET a == Eval(e.l, en) b == Eval(e.r, en) IN
         CASE e.op = "add" -> Wrap(a + b)
           [] e.op = "sub" -> Wrap(a - b)
           [] e.op = "mul" -> Wrap(a * b)
Init == pi = 1 /\ pc = 1 /\ env = [n \in {"x","y","z"} |-> 0] /\ out = <<>>
Step == /\ pi <= Len(Progs)
        /\ LET P == Progs[pi].stmts IN
           IF pc > Len(P) THEN pi' = pi + 1 /\ pc' = 1 /\ env' = [n \in {"x","y","z"} |-> 0] /\ out' = <<>>
           ELSE LET s == P[pc] IN
                /\ pc' = pc + 1 /\ pi' = pi
                /\ IF s.k = "assign" THEN env' = [env EXCEPT ![s.n] = Eval(s.e, env)] /\ out' = out
                   ELSE out' = Append(out, Eval(s.e, env)) /\ env' = env
Spec == Init /\ [][Step]_<<pi,pc,env,out>>
====
