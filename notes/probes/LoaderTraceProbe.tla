---- MODULE LoaderTraceProbe ----
EXTENDS Integers, Sequences, FiniteSets, TLC, Json
Proj == JsonDeserialize("project.json")
Trace == ndJsonDeserialize("trace.ndjson")
Mods == {Proj.mods[i] : i \in 1..Len(Proj.mods)}
G == Proj.global
Entry == Proj.entry
Imp(m) == Proj.imports[m]
VARIABLES seen, pc, idx, depGraph, cycErr, wg, mainpc, l
vars == <<seen, pc, idx, depGraph, cycErr, wg, mainpc, l>>
Range(s) == {s[i] : i \in 1..Len(s)}
Reach(g, from) ==
  LET RECURSIVE R(_,_)
      R(front, acc) == IF front = {} THEN acc
                       ELSE LET nxt == UNION { Range(g[n]) : n \in front } \ acc IN R(nxt, acc \cup nxt)
  IN R({from}, {from})
Init == /\ seen = {} /\ pc = [m \in Mods |-> "idle"] /\ idx = [m \in Mods |-> 1]
        /\ depGraph = [m \in Mods |-> <<>>] /\ cycErr = {} /\ wg = 0 /\ mainpc = "spawnG" /\ l = 1
\* ---- spec actions (same shape as ModuleLoaderProbe) ----
ClaimNew(m) == m \notin seen /\ seen' = seen \cup {m} /\ pc' = [pc EXCEPT ![m] = "parse"] /\ wg' = wg + 1
MainSpawn(m) == /\ \/ (mainpc = "spawnG" /\ m = G /\ mainpc' = "spawnE") \/ (mainpc = "spawnE" /\ m = Entry /\ mainpc' = "wait")
                /\ ClaimNew(m) /\ UNCHANGED <<idx, depGraph, cycErr>>
SpawnNew(p, m) == /\ pc[p] = "spawn" /\ idx[p] <= Len(Imp(p)) /\ Imp(p)[idx[p]] = m /\ ClaimNew(m)
                  /\ idx' = [idx EXCEPT ![p] = @ + 1] /\ UNCHANGED <<depGraph, cycErr, mainpc>>
SpawnDup(p, m) == /\ pc[p] = "spawn" /\ idx[p] <= Len(Imp(p)) /\ Imp(p)[idx[p]] = m /\ m \in seen
                  /\ idx' = [idx EXCEPT ![p] = @ + 1] /\ UNCHANGED <<seen, pc, wg, depGraph, cycErr, mainpc>>
FinishParse(m) == /\ pc[m] = "parse" /\ pc' = [pc EXCEPT ![m] = IF m = G THEN "spawn" ELSE "depG"]
                  /\ UNCHANGED <<seen, idx, depGraph, cycErr, wg, mainpc>>
AddDep(m, d, ok) == \* atomic critical section; `ok` is the LOGGED result and must equal the branch taken
   IF m \in Reach(depGraph, d) THEN ok = FALSE /\ cycErr' = cycErr \cup {<<m, d>>} /\ UNCHANGED depGraph
   ELSE ok = TRUE /\ depGraph' = [depGraph EXCEPT ![m] = IF d \in Range(@) THEN @ ELSE Append(@, d)] /\ UNCHANGED cycErr
DepStep(m, d, ok) == /\ \/ (pc[m] = "depG" /\ d = G /\ pc' = [pc EXCEPT ![m] = IF Len(Imp(m)) = 0 THEN "spawn" ELSE "dep"] /\ idx' = [idx EXCEPT ![m] = 1])
                        \/ (pc[m] = "dep" /\ idx[m] <= Len(Imp(m)) /\ d = Imp(m)[idx[m]]
                            /\ (IF idx[m] = Len(Imp(m)) THEN pc' = [pc EXCEPT ![m] = "spawn"] /\ idx' = [idx EXCEPT ![m] = 1]
                                ELSE pc' = pc /\ idx' = [idx EXCEPT ![m] = @ + 1]))
                     /\ AddDep(m, d, ok) /\ UNCHANGED <<seen, wg, mainpc>>
Done(m) == /\ pc[m] = "spawn" /\ idx[m] > Len(Imp(m)) /\ pc' = [pc EXCEPT ![m] = "done"] /\ wg' = wg - 1
           /\ UNCHANGED <<seen, idx, depGraph, cycErr, mainpc>>
WaitDone == mainpc = "wait" /\ wg = 0 /\ mainpc' = "done" /\ UNCHANGED <<seen, pc, idx, depGraph, cycErr, wg>>
\* ---- trace binding ----
Ev == Trace[l]
IsEvent(e) == l <= Len(Trace) /\ Ev.ev = e /\ l' = l + 1
TClaimNew == IsEvent("Claim") /\ Ev.loaded = "false" /\ (MainSpawn(Ev.m) \/ \E p \in Mods : SpawnNew(p, Ev.m))
TClaimDup == IsEvent("Claim") /\ Ev.loaded = "true" /\ \E p \in Mods : SpawnDup(p, Ev.m)
TParsed == IsEvent("Parsed") /\ FinishParse(Ev.m)
TDep == IsEvent("DepEdge") /\ DepStep(Ev.m, Ev.d, Ev.ok = "true")
TEnd == IsEvent("ParseEnd") /\ Done(Ev.m)
TWait == IsEvent("WaitDone") /\ WaitDone
TraceNext == TClaimNew \/ TClaimDup \/ TParsed \/ TDep \/ TEnd \/ TWait
TraceSpec == Init /\ [][TraceNext]_vars
Acyclic == \A m \in Mods : \A d \in Range(depGraph[m]) : m \notin Reach(depGraph, d)
TraceAccepted == TLCGet("stats").diameter - 1 = Len(Trace)
====
