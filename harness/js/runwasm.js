// node runwasm.js <runtime.js> <module.wasm>: run main() of a Ferret wasm module with the shipped runtime.
// exit 0 normal, 3 = panic (Error thrown by the runtime's ferret_global_panic), 4 = wasm trap
// (WebAssembly.RuntimeError), 5 = could not instantiate / other.
const fs = require('fs');
const [,, rtPath, wasmPath] = process.argv;
(async () => {
  const src = fs.readFileSync(rtPath);
  const rtmod = await import('data:text/javascript;base64,' + src.toString('base64'));
  const rt = rtmod.createFerretRuntime();
  let instance;
  try {
    const bytes = fs.readFileSync(wasmPath);
    ({ instance } = await WebAssembly.instantiate(bytes, rt.imports));
    rt.bind(instance);
  } catch (e) {
    process.stderr.write("instantiate: " + String(e && e.stack || e) + "\n");
    process.exitCode = 5;
    return;
  }
  try {
    instance.exports.main();
  } catch (e) {
    process.stderr.write(String(e && e.name) + ": " + String(e && e.message) + "\n");
    process.exitCode = (e instanceof WebAssembly.RuntimeError) ? 4 : 3;
  }
})();
