// bigint_driver: calls the real runtime/core/bigint.c (working tree) and logs every call as one
// ndjson record (operands and results as hex nibble arrays, most significant first).
// It decides nothing: spec/bigint/BigIntApi.tla validates the log with TLC.
//
// input lines:  <ty> <op> <hexA> [<hexB> | <int>]        ty in i128 u128 i256 u256
//   ops: add sub mul and or xor divmod cmp not shl shr pow from64 to64 tostr fromstr
#include <inttypes.h>
#include <stdbool.h>
#include <stdint.h>
#include <stdio.h>
#include <stdlib.h>
#include <string.h>

#include "bigint.h"

typedef struct { int bits; int sgn; } tyinfo;

static int hexval(int c) { return c <= '9' ? c - '0' : (c | 32) - 'a' + 10; }

// pattern <-> bytes (little endian byte array of bits/8 bytes)
static void parse_hex(const char* h, uint8_t* out, int nbytes) {
    memset(out, 0, nbytes);
    int n = (int)strlen(h);
    for (int i = 0; i < n && i < 2 * nbytes; i++) {
        int v = hexval(h[n - 1 - i]);
        out[i / 2] |= (uint8_t)(v << (4 * (i % 2)));
    }
}
static void print_nibbles(const char* name, const uint8_t* p, int nbytes) {
    printf(",\"%s\":[", name);
    for (int i = 2 * nbytes - 1; i >= 0; i--) {
        int v = (p[i / 2] >> (4 * (i % 2))) & 15;
        printf("%d%s", v, i ? "," : "");
    }
    printf("]");
}
static void print_dec(const char* s) {
    int neg = (*s == '-');
    if (neg) s++;
    printf(",\"neg\":%s,\"digits\":[", neg ? "true" : "false");
    for (int i = 0; s[i]; i++) printf("%s%d", i ? "," : "", s[i] - '0');
    printf("]");
}

#define GEN(T, NAME)                                                                               \
    static void run_##NAME(const char* op, const char* ha, const char* hb, const char* api) {      \
        T a, b, r, q;                                                                              \
        int nb = sizeof(T);                                                                        \
        parse_hex(ha, (uint8_t*)&a, nb);                                                           \
        parse_hex(hb ? hb : "0", (uint8_t*)&b, nb);                                                \
        int ptr = !strcmp(api, "ptr");                                                             \
        printf("{\"op\":\"%s\",\"ty\":\"" #NAME "\",\"api\":\"%s\"", op, api);                     \
        print_nibbles("a", (uint8_t*)&a, nb);                                                      \
        if (!strcmp(op, "add") || !strcmp(op, "sub") || !strcmp(op, "mul") || !strcmp(op, "and") || \
            !strcmp(op, "or") || !strcmp(op, "xor")) {                                             \
            print_nibbles("b", (uint8_t*)&b, nb);                                                  \
            if (!strcmp(op, "add")) { if (ptr) ferret_##NAME##_add_ptr(&a, &b, &r); else r = ferret_##NAME##_add(a, b); } \
            if (!strcmp(op, "sub")) { if (ptr) ferret_##NAME##_sub_ptr(&a, &b, &r); else r = ferret_##NAME##_sub(a, b); } \
            if (!strcmp(op, "mul")) { if (ptr) ferret_##NAME##_mul_ptr(&a, &b, &r); else r = ferret_##NAME##_mul(a, b); } \
            if (!strcmp(op, "and")) { if (ptr) ferret_##NAME##_and_ptr(&a, &b, &r); else r = ferret_##NAME##_and(a, b); } \
            if (!strcmp(op, "or"))  { if (ptr) ferret_##NAME##_or_ptr(&a, &b, &r);  else r = ferret_##NAME##_or(a, b); }  \
            if (!strcmp(op, "xor")) { if (ptr) ferret_##NAME##_xor_ptr(&a, &b, &r); else r = ferret_##NAME##_xor(a, b); } \
            print_nibbles("r", (uint8_t*)&r, nb);                                                  \
        } else if (!strcmp(op, "divmod")) {                                                        \
            print_nibbles("b", (uint8_t*)&b, nb);                                                  \
            if (ptr) { ferret_##NAME##_div_ptr(&a, &b, &q); ferret_##NAME##_mod_ptr(&a, &b, &r); } \
            else { q = ferret_##NAME##_div(a, b); r = ferret_##NAME##_mod(a, b); }                 \
            print_nibbles("q", (uint8_t*)&q, nb);                                                  \
            print_nibbles("r", (uint8_t*)&r, nb);                                                  \
        } else if (!strcmp(op, "cmp")) {                                                           \
            print_nibbles("b", (uint8_t*)&b, nb);                                                  \
            bool eq, lt, gt;                                                                       \
            if (ptr) { eq = ferret_##NAME##_eq_ptr(&a, &b); lt = ferret_##NAME##_lt_ptr(&a, &b); gt = ferret_##NAME##_gt_ptr(&a, &b); } \
            else { eq = ferret_##NAME##_eq(a, b); lt = ferret_##NAME##_lt(a, b); gt = ferret_##NAME##_gt(a, b); } \
            printf(",\"eq\":%s,\"lt\":%s,\"gt\":%s", eq ? "true" : "false", lt ? "true" : "false", gt ? "true" : "false"); \
        } else if (!strcmp(op, "not")) {                                                           \
            r = ferret_##NAME##_not(a);                                                            \
            print_nibbles("r", (uint8_t*)&r, nb);                                                  \
        } else if (!strcmp(op, "shl") || !strcmp(op, "shr")) {                                     \
            int n = atoi(hb);                                                                      \
            r = !strcmp(op, "shl") ? ferret_##NAME##_shl(a, n) : ferret_##NAME##_shr(a, n);        \
            printf(",\"n\":%d", n);                                                                \
            print_nibbles("r", (uint8_t*)&r, nb);                                                  \
        } else if (!strcmp(op, "pow")) {                                                           \
            int e = atoi(hb);                                                                      \
            T ev; memset(&ev, 0, sizeof ev); ((uint8_t*)&ev)[0] = (uint8_t)e; ((uint8_t*)&ev)[1] = (uint8_t)(e >> 8); \
            ((uint8_t*)&ev)[2] = (uint8_t)(e >> 16);                                               \
            if (ptr) ferret_##NAME##_pow_ptr(&a, &ev, &r); else r = ferret_##NAME##_pow(a, ev);    \
            printf(",\"e\":%d", e);                                                                \
            print_nibbles("r", (uint8_t*)&r, nb);                                                  \
        } else if (!strcmp(op, "tostr")) {                                                         \
            char* s = ptr ? ferret_##NAME##_to_string_ptr(&a) : ferret_##NAME##_to_string(a);      \
            print_dec(s ? s : "0");                                                                \
        }                                                                                          \
        printf("}\n");                                                                             \
    }

GEN(ferret_i128, i128)
GEN(ferret_u128, u128)
GEN(ferret_i256, i256)
GEN(ferret_u256, u256)

void ferret_i128_from_i64_ptr(int64_t val, ferret_i128* out);
void ferret_u128_from_u64_ptr(uint64_t val, ferret_u128* out);
void ferret_i256_from_i64_ptr(int64_t val, ferret_i256* out);
void ferret_u256_from_u64_ptr(uint64_t val, ferret_u256* out);
int64_t ferret_i128_to_i64_ptr(const ferret_i128* val);
uint64_t ferret_u128_to_u64_ptr(const ferret_u128* val);
int64_t ferret_i256_to_i64_ptr(const ferret_i256* val);
uint64_t ferret_u256_to_u64_ptr(const ferret_u256* val);
void ferret_i128_from_string_ptr(const char* str, ferret_i128* out);
void ferret_u128_from_string_ptr(const char* str, ferret_u128* out);
void ferret_i256_from_string_ptr(const char* str, ferret_i256* out);
void ferret_u256_from_string_ptr(const char* str, ferret_u256* out);

static void conv(const char* ty, const char* op, const char* arg) {
    printf("{\"op\":\"%s\",\"ty\":\"%s\",\"api\":\"ptr\"", op, ty);
    if (!strcmp(op, "from64")) {
        uint64_t v = 0; uint8_t vb[8]; parse_hex(arg, vb, 8); memcpy(&v, vb, 8);
        print_nibbles("v", vb, 8);
        if (!strcmp(ty, "i128")) { ferret_i128 r; ferret_i128_from_i64_ptr((int64_t)v, &r); print_nibbles("r", (uint8_t*)&r, 16); }
        if (!strcmp(ty, "u128")) { ferret_u128 r; ferret_u128_from_u64_ptr(v, &r); print_nibbles("r", (uint8_t*)&r, 16); }
        if (!strcmp(ty, "i256")) { ferret_i256 r; ferret_i256_from_i64_ptr((int64_t)v, &r); print_nibbles("r", (uint8_t*)&r, 32); }
        if (!strcmp(ty, "u256")) { ferret_u256 r; ferret_u256_from_u64_ptr(v, &r); print_nibbles("r", (uint8_t*)&r, 32); }
    } else if (!strcmp(op, "to64")) {
        uint64_t r = 0;
        if (!strcmp(ty, "i128")) { ferret_i128 a; parse_hex(arg, (uint8_t*)&a, 16); print_nibbles("a", (uint8_t*)&a, 16); r = (uint64_t)ferret_i128_to_i64_ptr(&a); }
        if (!strcmp(ty, "u128")) { ferret_u128 a; parse_hex(arg, (uint8_t*)&a, 16); print_nibbles("a", (uint8_t*)&a, 16); r = ferret_u128_to_u64_ptr(&a); }
        if (!strcmp(ty, "i256")) { ferret_i256 a; parse_hex(arg, (uint8_t*)&a, 32); print_nibbles("a", (uint8_t*)&a, 32); r = (uint64_t)ferret_i256_to_i64_ptr(&a); }
        if (!strcmp(ty, "u256")) { ferret_u256 a; parse_hex(arg, (uint8_t*)&a, 32); print_nibbles("a", (uint8_t*)&a, 32); r = ferret_u256_to_u64_ptr(&a); }
        print_nibbles("r", (uint8_t*)&r, 8);
    } else if (!strcmp(op, "fromstr")) {
        print_dec(arg);
        if (!strcmp(ty, "i128")) { ferret_i128 r; ferret_i128_from_string_ptr(arg, &r); print_nibbles("r", (uint8_t*)&r, 16); }
        if (!strcmp(ty, "u128")) { ferret_u128 r; ferret_u128_from_string_ptr(arg, &r); print_nibbles("r", (uint8_t*)&r, 16); }
        if (!strcmp(ty, "i256")) { ferret_i256 r; ferret_i256_from_string_ptr(arg, &r); print_nibbles("r", (uint8_t*)&r, 32); }
        if (!strcmp(ty, "u256")) { ferret_u256 r; ferret_u256_from_string_ptr(arg, &r); print_nibbles("r", (uint8_t*)&r, 32); }
    }
    printf("}\n");
}

int main(void) {
    static char line[4096], ty[16], op[16], a[1100], b[1100], api[8];
    while (fgets(line, sizeof line, stdin)) {
        b[0] = 0; strcpy(api, "ptr");
        int n = sscanf(line, "%15s %15s %1099s %1099s %7s", ty, op, a, b, api);
        if (n < 3) continue;
        if (n < 5) strcpy(api, "ptr");
        if (!strcmp(op, "from64") || !strcmp(op, "to64") || !strcmp(op, "fromstr")) { conv(ty, op, a); continue; }
        const char* bb = n >= 4 ? b : NULL;
        if (!strcmp(ty, "i128")) run_i128(op, a, bb, api);
        else if (!strcmp(ty, "u128")) run_u128(op, a, bb, api);
        else if (!strcmp(ty, "i256")) run_i256(op, a, bb, api);
        else if (!strcmp(ty, "u256")) run_u256(op, a, bb, api);
    }
    return 0;
}
