// fesrv: in-process compile server. Built with `go build -overlay` as a package inside module
// `compiler`, from /repo's current working tree. It exists only because process creation in the
// sandbox costs ~50 ms: a check that needs thousands of front-end verdicts streams jobs to a few
// long-lived servers instead of exec'ing the CLI each time. It calls exactly what main.go calls
// (compiler.Compile with the same Options) and captures what the CLI would have printed.
//
// Protocol (ndjson on stdin/stdout): job {"id","entry","backend":"qbe"|"wasm","skip":bool,"out":path}
// -> result {"id","success","panic","stderr","stdout"}. A panic on the job's own goroutine is
// recovered and reported; a panic on a goroutine started by the pipeline kills the server, which
// the orchestrator observes as EOF and then re-runs that one job through the real CLI binary.
package main

import (
	"bufio"
	"encoding/json"
	"fmt"
	"io"
	"os"
	"runtime/debug"
	"strconv"
	"time"

	"compiler/internal/compiler"
	"compiler/internal/verifhook"
)

type job struct {
	ID      int    `json:"id"`
	Entry   string `json:"entry"`
	Backend string `json:"backend"`
	Skip    bool   `json:"skip"`
	Out     string `json:"out"`
	Keep    bool   `json:"keep"`
	Trace   string `json:"trace"`
}

type result struct {
	ID      int    `json:"id"`
	Success bool   `json:"success"`
	Panic   string `json:"panic"`
	Stderr  string `json:"stderr"`
	Stdout  string `json:"stdout"`
}

var tmpE, tmpO *os.File

func runJob(j job, realOut *os.File) (res result) {
	res.ID = j.ID
	if tmpE == nil {
		tmpE, _ = os.CreateTemp("", "fesrv_e")
		tmpO, _ = os.CreateTemp("", "fesrv_o")
		os.Remove(tmpE.Name())
		os.Remove(tmpO.Name())
	}
	tmpE.Truncate(0)
	tmpE.Seek(0, 0)
	tmpO.Truncate(0)
	tmpO.Seek(0, 0)
	oldE, oldO := os.Stderr, os.Stdout
	os.Stderr, os.Stdout = tmpE, tmpO
	defer func() {
		if r := recover(); r != nil {
			res.Panic = fmt.Sprintf("panic: %v\n%s", r, debug.Stack())
			res.Success = false
		}
		os.Stderr, os.Stdout = oldE, oldO
		tmpE.Seek(0, 0)
		tmpO.Seek(0, 0)
		be, _ := io.ReadAll(tmpE)
		bo, _ := io.ReadAll(tmpO)
		res.Stderr, res.Stdout = string(be), string(bo)
	}()
	verifhook.SetTrace(j.Trace)
	defer verifhook.SetTrace("")
	backend := j.Backend
	if backend == "" {
		backend = "qbe"
	}
	r := compiler.Compile(&compiler.Options{
		EntryFile:        j.Entry,
		LogFormat:        compiler.ANSI,
		OutputExecutable: j.Out,
		KeepGenFiles:     j.Keep,
		SkipCodegen:      j.Skip,
		CodegenBackend:   backend,
	})
	res.Success = r.Success
	if !r.Success && r.Output != "" {
		res.Stdout += r.Output
	}
	return res
}

var jobTimeout = 20 * time.Second

func main() {
	if ms := os.Getenv("FESRV_JOB_TIMEOUT_MS"); ms != "" {
		if v, err := strconv.Atoi(ms); err == nil && v > 0 {
			jobTimeout = time.Duration(v) * time.Millisecond
		}
	}
	realOut := os.Stdout
	in := bufio.NewReaderSize(os.Stdin, 1<<20)
	w := bufio.NewWriter(realOut)
	for {
		line, err := in.ReadBytes('\n')
		if len(line) > 1 {
			var j job
			if json.Unmarshal(line, &j) == nil {
				// announce the job first so the orchestrator knows which one was in flight
				fmt.Fprintf(w, "{\"start\":%d}\n", j.ID)
				w.Flush()
				done := make(chan result, 1)
				go func() { done <- runJob(j, realOut) }()
				var res result
				select {
				case res = <-done:
				case <-time.After(jobTimeout):
					// the compile does not return: report it and give up this process
					fmt.Fprintf(w, "{\"id\":%d,\"hang\":true}\n", j.ID)
					w.Flush()
					os.Exit(3)
				}
				b, _ := json.Marshal(res)
				w.Write(b)
				w.WriteByte('\n')
				w.Flush()
			}
		}
		if err != nil {
			return
		}
	}
}
