// laydrv: reports the layouts the real implementation computes (C18).  Built with -overlay inside module
// `compiler`.  stdin: one JSON type expression per line {"id":N,"t":{k,n,a,kids}}; stdout: for every type
// and pointer size one line {"id","ptr","fresh":node,"shared":node} where node mirrors the type expression
// with the numbers of mir.DataLayout: size, align, struct field offsets (StructLayout + FieldOffset), the
// array stride the code generators use (SizeOf(element)), the optional flag offset they use
// (SizeOf(payload), which is also the val_size handed to runtime/core/optional.c) and the result tag
// offset of the native emitter.  fresh: a DataLayout that has seen no other type; shared: one DataLayout
// per pointer size for the whole session (as one compilation has).
package main

import (
	"bufio"
	"encoding/json"
	"fmt"
	"os"

	qbe "compiler/internal/codegen/qbe_embeddings"
	"compiler/internal/mir"
	"compiler/internal/types"
)

type texpr struct {
	K    string  `json:"k"`
	N    string  `json:"n"`
	A    int     `json:"a"`
	Kids []texpr `json:"kids"`
}

type node struct {
	K      string `json:"k"`
	N      string `json:"n,omitempty"`
	A      int    `json:"a"`
	Size   int    `json:"size"`
	Align  int    `json:"align"`
	Offs   []int  `json:"offs"`
	Stride int    `json:"stride"`
	Flag   int    `json:"flag"`
	Tag    int    `json:"tag"`
	Kids   []node `json:"kids"`
}

var nameCtr int

func build(t texpr) types.SemType {
	switch t.K {
	case "p":
		return types.NewPrimitive(types.TYPE_NAME(t.N))
	case "st":
		fs := make([]types.StructField, len(t.Kids))
		for i, k := range t.Kids {
			fs[i] = types.StructField{Name: fmt.Sprintf("F%d", i+1), Type: build(k)}
		}
		nameCtr++
		return types.NewNamed(fmt.Sprintf("T%d", nameCtr), types.NewStruct("", fs))
	case "ar":
		return types.NewArray(build(t.Kids[0]), t.A)
	case "op":
		return types.NewOptional(build(t.Kids[0]))
	case "rs":
		return types.NewResult(build(t.Kids[0]), build(t.Kids[1]))
	}
	panic("bad type kind " + t.K)
}

func measure(d *mir.DataLayout, t texpr, st types.SemType) node {
	n := node{K: t.K, N: t.N, A: t.A, Size: d.SizeOf(st), Align: d.AlignOf(st), Kids: []node{}}
	u := types.UnwrapType(st)
	switch t.K {
	case "st":
		s := u.(*types.StructType)
		lay := d.StructLayout(s)
		for i, k := range t.Kids {
			n.Kids = append(n.Kids, measure(d, k, s.Fields[i].Type))
		}
		for _, f := range lay.Fields {
			off, ok := lay.FieldOffset(f.Name)
			if !ok {
				off = -1
			}
			if off != f.Offset { // the two views the consumers use must agree; report the disagreement as overlap at -1
				off = -1
			}
			n.Offs = append(n.Offs, off)
		}
	case "ar":
		a := u.(*types.ArrayType)
		n.Kids = append(n.Kids, measure(d, t.Kids[0], a.Element))
		n.Stride = d.SizeOf(a.Element)
	case "op":
		o := u.(*types.OptionalType)
		n.Kids = append(n.Kids, measure(d, t.Kids[0], o.Inner))
		n.Flag = d.SizeOf(o.Inner)
	case "rs":
		r := u.(*types.ResultType)
		n.Kids = append(n.Kids, measure(d, t.Kids[0], r.Ok), measure(d, t.Kids[1], r.Err))
		off, ok := qbe.VerifResultTagOffset(d, r)
		if !ok {
			off = -1
		}
		n.Tag = off
	}
	if n.Offs == nil {
		n.Offs = []int{}
	}
	return n
}

func main() {
	in := bufio.NewScanner(os.Stdin)
	in.Buffer(make([]byte, 1<<22), 1<<22)
	w := bufio.NewWriter(os.Stdout)
	defer w.Flush()
	shared := map[int]*mir.DataLayout{4: mir.NewDataLayout(4), 8: mir.NewDataLayout(8)}
	for in.Scan() {
		var c struct {
			ID int   `json:"id"`
			T  texpr `json:"t"`
		}
		if json.Unmarshal(in.Bytes(), &c) != nil {
			continue
		}
		st := build(c.T)
		for _, ptr := range []int{4, 8} {
			out := map[string]any{"id": c.ID, "ptr": ptr,
				"fresh":  measure(mir.NewDataLayout(ptr), c.T, st),
				"shared": measure(shared[ptr], c.T, st)}
			j, _ := json.Marshal(out)
			w.Write(j)
			w.WriteByte('\n')
		}
	}
}
