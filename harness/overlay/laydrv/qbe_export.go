//go:build verif

package qbe

// Overlay-only file (never part of /repo): lets the C18 layout driver ask the native emitter for the offset
// it uses for a result's ok/err tag byte.

import (
	"compiler/internal/mir"
	"compiler/internal/types"
)

func VerifResultTagOffset(l *mir.DataLayout, r *types.ResultType) (int, bool) {
	g := &Generator{layout: l}
	return g.resultTagOffset(r, nil)
}
