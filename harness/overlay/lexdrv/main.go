// lexdrv: prints the token boundaries of Ferret source files using the real lexer of the working
// tree (built with -overlay inside module `compiler`). Used by C19 to find the token gaps into which
// trivia is inserted, and by the unit-level replay of character sequences into source.Position.Advance.
//
// usage: lexdrv tokens <file>...      -> one JSON line per file: {"file":..., "tokens":[[index,line,col,kind,len],...]}
//        lexdrv advance               -> stdin: one JSON string per line; stdout: [line,col,index] after Advance from 1:1:0
package main

import (
	"bufio"
	"encoding/json"
	"fmt"
	"os"

	"compiler/internal/diagnostics"
	"compiler/internal/frontend/lexer"
	"compiler/internal/source"
)

func main() {
	if len(os.Args) < 2 {
		os.Exit(2)
	}
	w := bufio.NewWriter(os.Stdout)
	defer w.Flush()
	switch os.Args[1] {
	case "tokens":
		for _, f := range os.Args[2:] {
			b, err := os.ReadFile(f)
			if err != nil {
				continue
			}
			bag := diagnostics.NewDiagnosticBag(f)
			toks := lexer.New(f, string(b), bag).Tokenize(false)
			out := make([][]any, 0, len(toks))
			for _, t := range toks {
				out = append(out, []any{t.Start.Index, t.Start.Line, t.Start.Column, string(t.Kind), t.End.Index - t.Start.Index})
			}
			j, _ := json.Marshal(map[string]any{"file": f, "tokens": out, "lexerrors": bag.ErrorCount()})
			w.Write(j)
			w.WriteByte('\n')
		}
	case "advance":
		in := bufio.NewScanner(os.Stdin)
		in.Buffer(make([]byte, 1<<20), 1<<20)
		for in.Scan() {
			var s string
			if json.Unmarshal(in.Bytes(), &s) != nil {
				continue
			}
			p := &source.Position{Line: 1, Column: 1, Index: 0}
			p.Advance(s)
			fmt.Fprintf(w, "[%d,%d,%d]\n", p.Line, p.Column, p.Index)
		}
	}
}
