"""C08 — dynamic arrays and strings are bounds-checked at run time, not mis-rejected.
Spec: spec/lang/IndexScenario.tla (Kind = "dyn", "str"). See vlib/indexchk.py for the binding."""
from vlib import indexchk


def run(tier, seed, replay=None):
    return indexchk.run_check("C08", tier, seed, replay, ["dyn", "str"], strict_accept=True)
