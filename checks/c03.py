"""C03 — statically ill-typed programs are rejected.

Spec: spec/lang/TypeRules.tla — rule-local typing judgments for the 14 rule classes of the property
(mixed arithmetic, implicit narrowing / float-to-int, non-bool conditions and logical operands,
argument count and type, undefined and redeclared names, return values, optionals where a value is
required, struct fields, fixed-array initialisers, calling a non-function, unhandled results, `!`
from a non-result function), enumerated over parameters x syntactic sites.  Binding, spec -> code:
each case is rendered and compiled by the real front end; ill => not accepted with >= 1 error
diagnostic; the well-typed members of the same enumeration are the controls (a rule/site whose
control is rejected is void)."""
import json
import os

from vlib import core, fesrv, tlc
from vlib.env import Env

PRELUDE = '''import "std/io";
type P struct { .X: i32, .Y: i32 };
fn (p: &P) m0() -> i32 { return 1; }
fn (p: &P) m1(a: i32) -> i32 { return a; }
fn (p: &P) m2(a: i32, b: i32) -> i32 { return a + b; }
fn (p: &P) mi32(a: i32) { }
fn (p: &P) mstr(a: str) { }
fn (p: &P) mbool(a: bool) { }
fn (p: &P) r0() -> str ! i32 { return 1; }
fn (p: &P) r1(a: i32) -> str ! i32 { return a; }
fn (p: &P) r2(a: i32, b: i32) -> str ! i32 { return a + b; }
fn f0() -> i32 { return 1; }
fn f1(a: i32) -> i32 { return a; }
fn f2(a: i32, b: i32) -> i32 { return a + b; }
fn fi32(a: i32) { }
fn fstr(a: str) { }
fn fbool(a: bool) { }
fn r0() -> str ! i32 { return 1; }
fn r1(a: i32) -> str ! i32 { return a; }
fn r2(a: i32, b: i32) -> str ! i32 { return a + b; }
fn take(a: i32) { }
fn fails() -> str ! i32 { return "e"!; }
'''
ZERO = {"i8": "1", "i32": "1", "i64": "1", "u32": "1", "f32": "1.5", "f64": "1.5", "str": '"s"', "bool": "true"}
VAL = {"i32": "vi", "str": "vs", "bool": "vb"}


class Frag:
    """params of the host function, statements of the fragment, extra top-level declarations, and
    (optionally) a whole-program override for declaration-level rules."""
    def __init__(self):
        self.params = []      # "name: type"
        self.args = []        # argument expressions in main
        self.stmts = []
        self.top = []
        self.result_host = False      # host returns str ! i32
        self.value_host = False       # host returns i32 (return statements in fragment)
        self.tail = None


def callee_expr(callee, name, args):
    if callee == "fn":
        return "%s(%s)" % (name, args)
    if callee == "method":
        return "hp.%s(%s)" % (name.replace("f", "m", 1) if name.startswith("f") else name, args)
    return "c_%s(%s)" % (name, args)


def closure_decl(name):
    sig = {"f0": "fn() -> i32 { return 1; }", "f1": "fn(a: i32) -> i32 { return a; }",
           "f2": "fn(a: i32, b: i32) -> i32 { return a + b; }", "fi32": "fn(a: i32) { }", "fstr": "fn(a: str) { }",
           "fbool": "fn(a: bool) { }", "r0": "fn() -> str ! i32 { return 1; }",
           "r1": "fn(a: i32) -> str ! i32 { return a; }", "r2": "fn(a: i32, b: i32) -> str ! i32 { return a + b; }"}[name]
    return "let c_%s := %s;" % (name, sig)


def fragment(c):
    r, a, b, cc = c["rule"], c["a"], c["b"], c["c"]
    f = Frag()
    if r == "mixarith":
        f.params = ["x: %s" % a, "y: %s" % b]
        f.args = ["ax", "ay"]
        f.top = []
        f.stmts = ["let z := x %s y;" % cc]
        f.main_pre = ["let ax: %s = %s;" % (a, ZERO[a]), "let ay: %s = %s;" % (b, ZERO[b])]
    elif r == "narrow":
        f.params = ["s: %s" % a, "t0: %s" % b]
        f.args = ["as_", "at"]
        f.main_pre = ["let as_: %s = %s;" % (a, ZERO[a]), "let at: %s = %s;" % (b, ZERO[b])]
        f.stmts = ["let t: %s = s;" % b] if cc == "let" else ["let t: %s = t0;" % b, "t = s;"]
    elif r == "nonbool":
        f.params = ["x: %s" % b]
        f.args = ["ax"]
        f.main_pre = ["let ax: %s = %s;" % (b, ZERO[b])]
        f.stmts = {"if": ["if x {", "}"], "while": ["while x {", "    break;", "}"],
                   "and": ["let z: bool = x && true;"], "or": ["let z: bool = true || x;"],
                   "not": ["let z: bool = !x;"]}[a]
    elif r == "argcount":
        name = "f" + b
        args = ", ".join(["1"] * int(cc))
        f.stmts = ([closure_decl(name)] if a == "closure" else []) + ["let z: i32 = %s;" % callee_expr(a, name, args)]
    elif r == "argtype":
        name = "f" + b
        f.params = ["vi: i32", "vs: str", "vb: bool"]
        f.args = ["1", '"s"', "true"]
        f.stmts = ([closure_decl(name)] if a == "closure" else []) + ["%s;" % callee_expr(a, name, VAL[cc])]
    elif r == "undefined":
        d = b == "declared"
        if a == "var":
            f.stmts = (["let ghost: i32 = 1;"] if d else []) + ["let z: i32 = ghost;"]
        elif a == "fn":
            f.stmts = ["let z: i32 = %s();" % ("f0" if d else "ghostfn")]
        elif a == "type":
            f.stmts = ["let z: %s = { .X = 1, .Y = 2 } as %s;" % (("P", "P") if d else ("Ghost", "Ghost"))]
        elif a == "field":
            f.stmts = ["let z: i32 = hp.%s;" % ("X" if d else "Ghost")]
        elif a == "method":
            f.stmts = ["let z: i32 = hp.%s();" % ("m0" if d else "ghostm")]
        else:
            f.stmts = ["let z: i32 = ghostmod::F();"]
    elif r == "redeclared":
        same = b == "same"
        if a == "let":
            f.stmts = ["let dup: i32 = 1;", "let %s: i32 = 2;" % ("dup" if same else "dup2")]
        elif a == "const":
            f.stmts = ["const dup: i32 = 1;", "const %s: i32 = 2;" % ("dup" if same else "dup2")]
        elif a == "param":
            f.params = ["dup: i32"]
            f.args = ["1"]
            f.stmts = ["let %s: i32 = 2;" % ("dup" if same else "dup2")]
        elif a == "fn":
            f.top = ["fn twice() { }", "fn %s() { }" % ("twice" if same else "twice2")]
            f.stmts = ["twice();"]
        else:
            f.top = ["type Twice struct { .A: i32 };", "type %s struct { .A: i32 };" % ("Twice" if same else "Twice2")]
            f.stmts = ["let z: i32 = 1;"]
    elif r == "return":
        # lit: a function literal whose return type would make the ill-typed return well typed
        sig, ret, lit = {
            "ok": ("fn rr(w: i64) -> i32", "return 1;", "fn() -> str { return \"s\"; }"),
            "wrongtype": ("fn rr(w: i64) -> i32", 'return "s";', 'fn() -> str { return "s"; }'),
            "missingvalue": ("fn rr(w: i64) -> i32", "return;", "fn() { }"),
            "narrow": ("fn rr(w: i64) -> i32", "return w;", "fn(v: i64) -> i64 { return v; }"),
            "optional": ("fn rr(w: i64, o: i32?) -> i32", "return o;", "fn(v: i32?) -> i32? { return v; }"),
            "bang": ("fn rr(w: i64) -> i32", 'return "e"!;', 'fn() -> str ! i32 { return "e"!; }'),
            "valueinvoid": ("fn rr(w: i64)", "return 1;", "fn() -> i32 { return 1; }"),
        }[a]
        pre = ("    let helper := %s;\n" % lit) if b == "afterlit" else ""
        f.top = ["%s {\n%s    %s\n}" % (sig, pre, ret)]
        f.stmts = ["let z: i32 = 1;"]
    elif r == "optional":
        f.params = ["o: i32?"]
        f.args = ["ao"]
        f.main_pre = ["let ao: i32? = 5;"]
        raw = b == "raw"
        e = "o" if raw else "(o ?? dflt)"
        pre = ["let dflt: i32 = 0;"]
        if a == "arith":
            f.stmts = pre + ["let one: i32 = 1;", "let z: i32 = %s + one;" % e]
        elif a == "assign":
            f.stmts = pre + ["let z: i32 = %s;" % e]
        elif a == "arg":
            f.stmts = pre + ["take(%s);" % e]
        elif a == "ret":
            f.top = ["fn oret(o: i32?) -> i32 {\n    let dflt: i32 = 0;\n    return %s;\n}" % e]
            f.stmts = ["let z: i32 = oret(o);"]
        else:
            f.stmts = pre + ["if %s == 1 {" % e, "}"]
    elif r == "field":
        f.stmts = {"ok": ["let q: P = { .X = 1, .Y = 2 };"],
                   "unknownlit": ["let q: P = { .X = 1, .Y = 2, .Q = 3 };"],
                   "missinglit": ["let q: P = { .X = 1 };"],
                   "mistypedlit": ['let q: P = { .X = "s", .Y = 2 };'],
                   "unknownaccess": ["let q: P = { .X = 1, .Y = 2 };", "let z: i32 = q.Q;"],
                   "mistypedassign": ["let q: P = { .X = 1, .Y = 2 };", 'q.X = "s";']}[a]
    elif r == "arrinit":
        f.stmts = ["let arr: [%s]i32 = [%s];" % (b, ", ".join(str(i + 1) for i in range(int(a))))]
    elif r == "callnonfn":
        f.params = ["vi: i32", "vs: str"]
        f.args = ["1", '"s"']
        f.stmts = {"fn": ["let z: i32 = f0();"], "i32": ["vi();"], "str": ["vs();"], "struct": ["hp();"]}[a]
    elif r == "unhandled":
        name = "r" + b
        args = ", ".join(["1"] * int(b))
        call = callee_expr(a, name, args)
        pre = [closure_decl(name)] if a == "closure" else []
        if cc == "let":
            f.stmts = pre + ["let z: i32 = %s;" % call]
        elif cc == "arg":
            f.stmts = pre + ["take(%s);" % call]
        elif cc == "stmt":
            f.stmts = pre + ["%s;" % call]
        elif cc == "ret":
            f.top = ["fn ur() -> i32 {\n    return %s;\n}" % callee_expr("fn", name, args)]
            f.stmts = ["let z: i32 = 1;"]
        else:
            f.stmts = pre + ["let z: i32 = %s catch 0;" % call]
    elif r == "scope":
        d, u = "let sv: i32 = 1;", "let z: i32 = sv;"
        f.stmts = {
            "same": [d, u],
            "inner": [d, "if gate == 1 {", "    " + u, "}"],
            "inner_closure": [d, "let sc := fn() -> i32 {", "    return sv;", "};", "let z: i32 = sc();"],
            "then_else": ["if gate == 5 {", "    " + d, "} else {", "    " + u, "}"],
            "then_elseif_cond": ["if gate == 5 {", "    " + d, "} else if sv == 1 {", "}"],
            "then_elseif_body": ["if gate == 5 {", "    " + d, "} else if gate == 1 {", "    " + u, "}"],
            "then_after": ["if gate == 1 {", "    " + d, "}", u],
            "else_after": ["if gate == 5 {", "} else {", "    " + d, "}", u],
            "elseif_else": ["if gate == 5 {", "} else if gate == 6 {", "    " + d, "} else {", "    " + u, "}"],
            "while_after": ["let sw: i32 = 0;", "while sw < 1 {", "    sw = sw + 1;", "    " + d, "}", u],
            "for_after": ["let s0: i32 = 0;", "let s1: i32 = 1;", "for si in s0..s1 {", "    " + d, "}", u],
            "forvar_after": ["let s0: i32 = 0;", "let s1: i32 = 1;", "for sv in s0..s1 {", "}", u],
            "block_after": ["{", "    " + d, "}", u],
            "arm_other": ["match gate {", "    5 => {", "        " + d, "    }", "    _ => {", "        " + u, "    }", "}"],
            "arm_after": ["match gate {", "    1 => {", "        " + d, "    }", "    _ => { }", "}", u],
            "closure_after": ["let sc := fn() {", "    " + d, "};", "sc();", u],
            "catch_after": ["let sd: i32 = fails() catch se {", "    " + d, "} 0;", u],
            "catchvar_after": ["let sd: i32 = fails() catch sv {", "} 0;", "let z: str = sv;"],
            "fn_other": [u],
            "param_other": [u],
        }[a]
        if a == "fn_other":
            f.top = ["fn elsewhere() {\n    let sv: i32 = 1;\n}"]
        if a == "param_other":
            f.top = ["fn elsewhere(sv: i32) { }"]
    elif r == "bang":
        body = 'return "e"!;'
        if a == "resultfn":
            f.top = ["fn bb() -> str ! i32 {\n    %s\n}" % body]
        elif a == "voidfn":
            f.top = ["fn bb() {\n    %s\n}" % body]
        elif a == "valuefn":
            f.top = ["fn bb() -> i32 {\n    %s\n}" % body]
        else:
            f.stmts = ["let bb := fn() -> i32 {", "    %s" % body, "};"]
        f.stmts = f.stmts or ["let z: i32 = 1;"]
    else:
        raise core.Undecided("rule " + r)
    return f


def at_site(site, stmts, ind=1):
    pad = "    " * ind
    body = [pad + "    " + s for s in stmts]
    if site in ("fn", "method"):
        return [pad + s for s in stmts]
    if site == "closure":
        return [pad + "let host_c := fn() {"] + body + [pad + "};", pad + "host_c();"]
    if site == "if":
        return [pad + "if gate == 1 {"] + body + [pad + "}"]
    if site == "else":
        return [pad + "if gate == 2 {", pad + "} else {"] + body + [pad + "}"]
    if site == "while":
        return [pad + "let wk: i32 = 0;", pad + "while wk < 1 {", pad + "    wk = wk + 1;"] + body + [pad + "}"]
    if site == "for":
        return [pad + "let fz: i32 = 0;", pad + "let fn_: i32 = 1;", pad + "for fi in fz..fn_ {"] + body + [pad + "}"]
    if site == "match":
        return [pad + "match gate {", pad + "    1 => {"] + [pad + "    " + s for s in body] + [pad + "    }",
                                                                                             pad + "    _ => { }", pad + "}"]
    if site == "catch":
        return [pad + "let cd: i32 = fails() catch ce {"] + body + [pad + "} 0;"]
    if site == "block":
        return [pad + "{"] + body + [pad + "}"]
    raise core.Undecided("site " + site)


def render(c):
    f = fragment(c)
    params = ", ".join(["gate: i32", "hp: &P"] + f.params)
    args = ", ".join(["1", "&hp0"] + f.args)
    body = at_site(c["site"], f.stmts)
    src = [PRELUDE] + f.top
    if c["site"] == "method":
        src += ["type HostT struct { .Z: i32 };", "fn (hh: &HostT) host(%s) {" % params] + body + ["}"]
        call = ["    let hh0: HostT = { .Z = 1 };", "    hh0.host(%s);" % args]
    else:
        src += ["fn host(%s) {" % params] + body + ["}"]
        call = ["    host(%s);" % args]
    main = ["fn main() {", "    let hp0: P = { .X = 1, .Y = 2 };"] + ["    " + s for s in getattr(f, "main_pre", [])] + call + ["}"]
    return "\n".join(src + main) + "\n"


def run(tier, seed, replay=None):
    chk = core.Check("C03", tier, seed, "exploration")
    env = Env()
    env.build_all()
    res = tlc.require_ok(tlc.run(env.tmpdir("tlc"), "TypeRules", "Gen_TypeRules.cfg", ["lang"], workers=4), "TypeRules")
    cases = res["cases"]
    if replay:
        with open(replay) as f:
            rk = json.load(f)["key"]
        cases = [c for c in cases if c["key"] == rk]
    pool = fesrv.Pool(env)
    jobs = []
    for c in cases:
        d = env.tmpdir("c03")
        p = os.path.join(d, "m.fer")
        with open(p, "w") as f:
            f.write(render(c))
        c["_p"] = p
        jobs.append({"entry": p, "skip": True})
    obs = pool.compile_many(jobs)
    # controls: per (rule, site) at least one well-typed member must be accepted
    ctl_ok, ctl_all = {}, {}
    for c, o in zip(cases, obs):
        if not c["ill"]:
            k = (c["rule"], c["site"])
            ctl_all[k] = ctl_all.get(k, 0) + 1
            if o["cls"] == "ACCEPT":
                ctl_ok[k] = ctl_ok.get(k, 0) + 1
    n_ill = n_rej = n_void = 0
    susp = []
    bad_controls = []
    for c, o in zip(cases, obs):
        if not c["ill"]:
            if o["cls"] != "ACCEPT" and len(bad_controls) < 12:
                bad_controls.append({"key": c["key"], "cls": o["cls"], "msg": [e["msg"][:70] for e in o["errors"]][:2]})
            continue
        n_ill += 1
        if ctl_ok.get((c["rule"], c["site"]), 0) == 0 and ctl_ok.get((c["rule"], "fn"), 0) == 0 and not replay:
            n_void += 1
            continue
        if o["cls"] == "ACCEPT":
            susp.append(c)
        elif o["cls"] == "REJECT" and o["errors"]:
            n_rej += 1
        else:
            n_rej += 1          # CRASH/HANG: not compiled; the crash itself is C13's concern
    for c, o2 in zip(susp, core.pmap(lambda c: env.compile(c["_p"], typecheck_only=True), susp, workers=8)):
        if o2["cls"] == "ACCEPT":
            chk.fail(c["key"], "ill-typed program (rule %s: %s %s %s, site %s) is accepted without any error"
                     % (c["rule"], c["a"], c["b"], c["c"], c["site"]),
                     {"case": {k: v for k, v in c.items() if k != "_p"}, "program": render(c)})
    for c in cases[:2] + cases[-2:]:
        chk.sample({"key": c["key"], "ill": c["ill"]})
    n_ctl = sum(ctl_all.values())
    chk.cov.update({
        "evaluations": len(cases), "distinct_nontrivial": n_ill - n_void,
        "states": res["distinct"], "transitions": res["states"],
        "ill_typed_cases": n_ill, "rejected_as_required": n_rej, "void_no_accepted_control": n_void,
        "controls": n_ctl, "controls_accepted": sum(ctl_ok.values()), "rejected_control_examples": bad_controls,
        "exhaustive": True,
        "rule": "14 rule classes x their parameter spaces (type pairs, arities, callee kinds, positions) x 10 syntactic "
                "sites (function, method, closure, if, else, while, for, match arm, catch handler, block) = 3574 "
                "cases of which the ill-typed ones carry the obligation; non-trivial = ill-typed with an accepted control",
    })
    chk.assumptions += ["rule-local judgments: only the injected rule's premise is evaluated by the specification; the "
                        "acceptance of the well-typed member of the same (rule, site) family controls everything else"]
    return chk.finish()
