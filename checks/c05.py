"""C05 — a non-void function always returns a value from a return statement.

Spec: spec/lang/ReturnPaths.tla — body grammar, definitional interpreter Eval, structural rule FT;
TLC proves on every enumerated body that FT(body) <=> some parameter vector makes Eval run off the
end, and emits each body with the result of every call.  Binding, spec -> code: each body is rendered
as a named function, a method and a function literal; CanFallOff => the compiler must not accept it;
accepted bodies are compiled natively and every terminating call must print the value of the return
statement the specification's path took."""
import json
import os
import random

from vlib import core, fesrv, tlc
from vlib.env import Env

FORMS = ["fn", "method", "closure"]


class R:
    def __init__(self, order="dlast"):
        self.loopflag = order == "loopflag"      # while loops controlled by a re-armed local flag
        self.order = order if order in ("dfirst", "dmid") else "dlast"     # where a match writes its default arm
        self.ret = 0
        self.cmp = 0
        self.pre = []          # declarations hoisted to the top of the function


def rblock(b, r, ind):
    out = []
    for s in b:
        out += rstmt(s, r, ind)
    return out


def rstmt(s, r, ind):
    pad = "    " * ind
    k = s["k"]
    if k == "ret":
        r.ret += 1
        return ["%sreturn %d;" % (pad, 100 + r.ret)]
    if k == "print":
        return ["%scnt = cnt + 1;" % pad]
    if k == "break":
        return ["%sbreak;" % pad]
    if k == "continue":
        return ["%scontinue;" % pad]
    r.cmp += 1
    p = "p%d" % r.cmp
    n = r.cmp
    if k == "if":
        return ["%sif %s == 1 {" % (pad, p)] + rblock(s["t"], r, ind + 1) + [pad + "}"]
    if k == "ifelse":
        return ["%sif %s == 1 {" % (pad, p)] + rblock(s["t"], r, ind + 1) + [pad + "} else {"] + \
            rblock(s["e"], r, ind + 1) + [pad + "}"]
    if k == "elif":
        return ["%sif %s == 1 {" % (pad, p)] + rblock(s["t"], r, ind + 1) + ["%s} else if %s == 2 {" % (pad, p)] + \
            rblock(s["u"], r, ind + 1) + [pad + "} else {"] + rblock(s["e"], r, ind + 1) + [pad + "}"]
    if k in ("match1", "match2"):
        # the arms are rendered in the specification's order (parameter numbering), then written in the order of
        # the layout: which arm is taken does not depend on where the default arm is written
        arms = [["%s    1 => {" % pad] + rblock(s["a"], r, ind + 2) + [pad + "    }"]]
        if k == "match2":
            arms.append(["%s    2 => {" % pad] + rblock(s["b"], r, ind + 2) + [pad + "    }"])
        if not is_nodefault(s["d"]):
            dflt = ["%s    _ => {" % pad] + rblock(s["d"], r, ind + 2) + [pad + "    }"]
            pos = {"dlast": len(arms), "dfirst": 0, "dmid": min(1, len(arms))}[r.order]
            arms.insert(pos, dflt)
        return ["%smatch %s {" % (pad, p)] + [l for a in arms for l in a] + [pad + "}"]
    if k == "while":
        r.pre.append("    let i%d: i32 = 0;" % n)
        if r.loopflag:
            # the same loop controlled by a local flag that is re-armed after the loop (a dead store): what is known
            # about the flag at the end of the function says nothing about the loop's exit
            r.pre.append("    let go%d: bool = false;" % n)
            return ["%si%d = 0;" % (pad, n), "%sgo%d = i%d < %s;" % (pad, n, n, p), "%swhile go%d {" % (pad, n),
                    "%s    i%d = i%d + 1;" % (pad, n, n), "%s    go%d = i%d < %s;" % (pad, n, n, p)] + \
                rblock(s["b"], r, ind + 1) + [pad + "}", "%sgo%d = true;" % (pad, n)]
        return ["%si%d = 0;" % (pad, n), "%swhile i%d < %s {" % (pad, n, p), "%s    i%d = i%d + 1;" % (pad, n, n)] + \
            rblock(s["b"], r, ind + 1) + [pad + "}"]
    if k == "whiletrue":
        return ["%swhile true {" % pad] + rblock(s["b"], r, ind + 1) + [pad + "}"]
    if k == "for":
        r.pre.append("    let z%d: i32 = 0;" % n)
        return ["%sfor j%d in z%d..%s {" % (pad, n, n, p)] + rblock(s["b"], r, ind + 1) + [pad + "}"]
    raise core.Undecided("unknown statement kind " + k)


def is_nodefault(d):
    return len(d) == 1 and d[0].get("k") == "nodefault"


def render(case, form, with_calls=True):
    form, _, order = form.partition("/")
    r = R(order or "dlast")
    body = rblock(case["body"], r, 1)
    n = case["nparams"]
    params = ", ".join("p%d: i32" % i for i in range(1, n + 1))
    inner = ["    let cnt: i32 = 0;"] + r.pre + body
    calls = []
    if with_calls:
        for run in case["runs"]:
            if run["r"]["o"] == "ret":
                args = ", ".join(str(x) for x in run["p"])
                calls.append((args, run["r"]["v"]))
    src = ['import "std/io";']
    if form == "fn":
        src += ["fn f(%s) -> i32 {" % params] + inner + ["}", "fn main() {"]
        src += ["    io::Println(f(%s));" % a for a, _ in calls]
    elif form == "method":
        src += ["type T struct { .X: i32 };", "fn (t: &T) m(%s) -> i32 {" % params] + inner + ["}", "fn main() {",
                                                                                               "    let t: T = { .X = 1 };"]
        src += ["    io::Println(t.m(%s));" % a for a, _ in calls]
    else:
        src += ["fn main() {", "    let f := fn(%s) -> i32 {" % params] + ["    " + x for x in inner] + ["    };"]
        src += ["    io::Println(f(%s));" % a for a, _ in calls]
    src += ["}"]
    return "\n".join(src) + "\n", [str(v) for _, v in calls]


def shape(b):
    def s1(s):
        k = s["k"]
        if k in ("ret", "print", "break", "continue"):
            return k[0]
        subs = [s[x] for x in ("t", "u", "e", "a", "b", "d") if x in s]
        return k + "(" + "|".join("-" if is_nodefault(x) else shape(x) for x in subs) + ")"
    return ",".join(s1(s) for s in b)


def run(tier, seed, replay=None):
    chk = core.Check("C05", tier, seed, "model_checking")
    env = Env()
    env.build_all()
    rnd = random.Random(seed)
    res = tlc.require_ok(tlc.run(env.tmpdir("tlc"), "ReturnPaths", "MC_ReturnPaths2.cfg", ["lang"], workers=16,
                                 timeout=1800), "ReturnPaths")
    if res["violated"]:
        raise core.Undecided("design-level: the structural rule and the path semantics disagree:\n" + tlc.tail(res["out"]))
    cases = res["cases"]
    for c in cases:
        c["shape"] = shape(c["body"])
    if replay:
        with open(replay) as f:
            rp = json.load(f)["replay"]
        cases = [c for c in cases if c["shape"] == rp["shape"]]
        forms = [rp["form"]]
    else:
        forms = FORMS
        if tier == "quick":
            # one representative per control-flow signature: blocks are abstracted to how they end
            # (falls through / return / break / continue), which is all the return-path rule can see
            bysig = {}
            for c in cases:
                bysig.setdefault(signature(c["shape"]), []).append(c)
            cases = [rnd.choice(v) for _, v in sorted(bysig.items())]
    pool = fesrv.Pool(env)
    jobs, index = [], []
    for c in cases:
        fs = forms if (tier == "thorough" or replay or max_depth(c["body"]) <= 1) else [FORMS[len(jobs) % 3]]
        if not replay and has_kind(c["body"], "while"):
            fs = list(fs) + [FORMS[(len(jobs) + 2) % 3] + "/loopflag"]
        if not replay and has_default_match(c["body"]):
            # the same body with the default arm written first / in the middle (one form, rotating)
            fs = list(fs) + [FORMS[len(jobs) % 3] + "/dfirst", FORMS[(len(jobs) + 1) % 3] + "/dmid"]
        for form in fs:
            d = env.tmpdir("c05")
            p = os.path.join(d, "m.fer")
            src, expect = render(c, form)
            with open(p, "w") as f:
                f.write(src)
            jobs.append({"entry": p, "skip": True})
            index.append((c, form, p, expect))
    obs = pool.compile_many(jobs)

    n_must_reject = n_acc = n_rej_ok = n_over_reject = 0
    to_run = []
    for (c, form, p, expect), o in zip(index, obs):
        key = "C05|%s|%s" % (form, c["shape"])
        if c["canFallOff"]:
            n_must_reject += 1
            if o["cls"] == "ACCEPT":
                # confirm through the CLI and show what a falling call returns
                o2 = env.compile(p, typecheck_only=True)
                if o2["cls"] == "ACCEPT":
                    chk.fail(key, "%s whose body can run off its end (%s) is accepted" % (form, c["shape"]),
                             {"shape": c["shape"], "form": form, "program": render(c, form)[0]})
            else:
                n_rej_ok += 1
        else:
            if o["cls"] == "ACCEPT":
                n_acc += 1
                if expect:
                    to_run.append((c, form, p, expect))
            elif o["cls"] == "REJECT":
                n_over_reject += 1          # allowed by the property (one-directional); counted
    # dynamic clause on accepted bodies
    if not replay:
        rnd.shuffle(to_run)
        to_run = to_run[:250 if tier == "quick" else 2500]

    def runit(item):
        c, form, p, expect = item
        exe = p[:-4] + ".out"
        o = env.compile(p, out=exe)
        if o["cls"] != "ACCEPT":
            return item, o, None
        return item, o, env.run_native(exe)
    n_run = n_run_ok = n_backend_void = 0
    for (c, form, p, expect), o, r in core.pmap(runit, to_run, workers=12):
        key = "C05|%s|%s|value" % (form, c["shape"])
        if r is None:
            n_backend_void += 1
            continue
        n_run += 1
        got = r["out"].split()
        if r["cls"] != "EXIT0" or got != expect:
            chk.fail(key, "accepted %s returns %s where the return statements taken yield %s (exit %s)"
                     % (form, got[:12], expect[:12], r["cls"]),
                     {"shape": c["shape"], "form": form, "program": render(c, form)[0]})
        else:
            n_run_ok += 1
    for c in cases[:2] + cases[-2:]:
        chk.sample({"shape": c["shape"], "canFallOff": c["canFallOff"], "calls": len(c["runs"])})
    chk.cov.update({
        "states": res["distinct"], "transitions": res["states"], "traces_validated_against_impl": len(jobs),
        "bodies": len(cases), "programs": len(jobs), "must_reject": n_must_reject, "rejected_as_required": n_rej_ok,
        "accepted_total_bodies": n_acc, "rejected_although_no_path_falls_off": n_over_reject,
        "executed": n_run, "executed_ok": n_run_ok, "accepted_by_front_end_but_not_built": n_backend_void,
        "evaluations": len(jobs) + n_run, "distinct_nontrivial": len({c["shape"] for c in cases}),
        "design_invariant": "RuleMatchesPaths on all %d enumerated bodies" % len(res["cases"]),
        "rule": "all bodies of the grammar up to depth 2 (11840) x {function, method, function literal}; quick: one "
                "seed-chosen representative per control-flow signature (leaf blocks abstracted to how they end), depth-1 "
                "bodies in all 3 forms, deeper ones in one rotating form; distinct = distinct body shapes",
    })
    chk.assumptions += ["each condition tests its own parameter, so syntactic paths are feasible",
                        "`while true` bodies are loop-invariant, so 3 iterations decide divergence"]
    return chk.finish()


def signature(shape):
    """Abstract a body shape: a leaf block matters only by how it ends."""
    import re
    s = shape
    s = re.sub(r"p,(?=[rbc])", "", s)          # `print, X`  ->  X
    s = re.sub(r"(?<![a-z0-9])p(?![a-z0-9])", "", s)   # a block that only prints == empty block
    return s


def has_kind(b, kind):
    for s in b:
        if s["k"] == kind:
            return True
        if any(has_kind(s[x], kind) for x in ("t", "u", "e", "a", "b", "d") if x in s and not is_nodefault(s[x])):
            return True
    return False


def has_default_match(b):
    for s in b:
        if s["k"] in ("match1", "match2") and not is_nodefault(s["d"]):
            return True
        if any(has_default_match(s[x]) for x in ("t", "u", "e", "a", "b", "d") if x in s and not is_nodefault(s[x])):
            return True
    return False


def max_depth(b):
    d = 0
    for s in b:
        subs = [s[x] for x in ("t", "u", "e", "a", "b", "d") if x in s]
        if subs:
            d = max(d, 1 + max((max_depth(x) for x in subs if not is_nodefault(x)), default=0))
    return d
