"""C14 — compilation is deterministic under every schedule.

Spec: ModuleLoader (global literal counter, diagnostic bag with stable (file,line) sort, cycle
errors, Kahn order) with `Rounds` independent compilations of one project per behaviour.  TLC
(-simulate) produces projects together with several schedules each.  Binding:
  spec -> code: every schedule is forced through the hooked compiler, in the same directory;
  code -> spec: every run (forced and natural, GOMAXPROCS 1/2/16) is trace-validated by LoaderTrace,
                which also emits the specification's Output for that run.
Oracle: two runs of one project whose specification Outputs are equal must have identical exit
status, identical diagnostics text and byte-identical generated code (gen/*.ssa, .wasm).  Runs whose
specification Outputs differ are schedule-dependent BY DESIGN (a defect of Ferret, recorded as a
known finding per class); when the real outputs differ there too, the class is reported."""
import glob
import hashlib
import json
import os
import random
import shutil

from vlib import core, loader, tlc
from vlib.env import Env

ERRLINE = "let q%da: i32 = ; let q%db: i32 = ;"
OPEN_BLOCKS = 40


def render(case, d, with_types=False):
    entry, _ = loader.render_project(case, d)
    root = os.path.dirname(entry)
    for m, k in case.get("ndiag", {}).items():
        if k and m not in case.get("missing", []):
            with open(os.path.join(root, loader.short(m) + ".fer"), "a") as f:
                for i in range(k):
                    f.write(ERRLINE % (i, i) + "\n")
                # ... and a tail of blocks left open: the parser reports the missing brace once per open block, all at
                # the end of the file, i.e. a run of identical diagnostics added back to back while other modules parse
                f.write("fn zz%d() {\n" % k + "    if true {\n" * OPEN_BLOCKS)
    return entry


def snapshot(env, entry, mode, sched, gmp, target):
    """One compilation in the project's own directory; returns the observable output."""
    root = os.path.dirname(entry)
    gen = os.path.join(root, "gen")
    shutil.rmtree(gen, ignore_errors=True)
    out = os.path.join(root, "out.wasm" if target == "wasm" else "out")
    for f in (out,):
        if os.path.exists(f):
            os.remove(f)
    tr = os.path.join(root, "..", "trace_%s.ndjson" % mode)
    extra = {"GOMAXPROCS": str(gmp)} if gmp else None
    o = env.compile(entry, target=target, out=out, keep_gen=(target != "wasm"), trace=tr, schedule=sched,
                    timeout=20, extra_env=extra)
    files = {}
    for p in sorted(glob.glob(os.path.join(gen, "*.ssa"))):
        with open(p, "rb") as f:
            files[os.path.basename(p)] = hashlib.sha1(f.read()).hexdigest()
    if target == "wasm" and os.path.exists(out):
        with open(out, "rb") as f:
            files["out.wasm"] = hashlib.sha1(f.read()).hexdigest()
    evs = loader.read_trace(tr)
    return {"cls": o["cls"], "rc": o["rc"], "text": o["text"], "files": files, "events": evs,
            "followed": (sched is None) or (any(e["ev"] == "SchedDone" for e in evs)
                                            and not any(e["ev"] == "Infeasible" for e in evs))}


def real_key(s):
    return json.dumps([s["rc"], s["text"], s["files"]], sort_keys=True)


def project_key(c):
    g = ";".join("%s>%s" % (loader.short(m), ",".join(loader.short(x) for x in c["imports"][m]))
                 for m in sorted(c["imports"]))
    return "%s|lits=%s|diag=%s" % (g, "".join(str(c["nlits"][m]) for m in sorted(c["nlits"])),
                                   "".join(str(c["ndiag"][m]) for m in sorted(c["ndiag"])))


def classify_design_diff(o1, o2):
    if o1["errset"] != o2["errset"] or o1["emitted"] != o2["emitted"] or o1["fail"] != o2["fail"]:
        def miss(o):
            return sorted(json.dumps(e) for e in o["errset"] if e and e[0] == "missing")
        if miss(o1) != miss(o2):
            return "missing-blame"      # which of several imports of a missing module claims it (and is reported)
        return "cycle-blame"
    if o1["names"] != o2["names"]:
        return "litid-race"
    return "module-order"


def run(tier, seed, replay=None):
    chk = core.Check("C14", tier, seed, "model_checking")
    env = Env()
    env.build_all()
    rnd = random.Random(seed)

    # design level: exhaustive invariants for 3 modules (as C15) + simulated multi-round behaviours
    r0 = tlc.require_ok(tlc.run(env.tmpdir("tlc"), "MC_Loader", "MC_Loader3.cfg", ["loader"], workers=16,
                                timeout=1800), "MC_Loader3")
    n3 = 60 if tier == "quick" else 700
    n4 = 15 if tier == "quick" else 300
    cases = []
    nm = 24 if tier == "quick" else 300
    for cfg, n in (("Gen_Loader3R.cfg", n3), ("Gen_Loader4R.cfg", n4), ("Gen_Loader4MR.cfg", nm)):
        r = tlc.require_ok(tlc.run(env.tmpdir("tlc"), "MC_Loader", cfg, ["loader"], workers=4,
                                   simulate="num=%d" % max(1, n // 4), depth=400, seed=seed, timeout=1800), cfg)
        cases += r["cases"]
    if replay:
        with open(replay) as f:
            rk = json.load(f)["replay"]["project"]
        cases = [c for c in cases if project_key(c) == rk] or cases[:0]
        if not cases:
            raise core.Undecided("replay project not regenerated with this seed/tier; rerun with the recorded seed")
    if not cases:
        raise core.Undecided("no cases")
    design_nd = sum(1 for c in cases if not all(x["same"] for x in c["rounds"]))

    def do(c):
        d = env.tmpdir("c14")
        entry = render(c, d)
        runs = []
        target = "native"
        for i, rd in enumerate(c["rounds"]):
            sp = os.path.join(d, "sched%d.txt" % i)
            with open(sp, "w") as f:
                f.write("\n".join("%s|%s|%s" % (s["p"], s["o"], s["a"]) for s in rd["sched"]) + "\n")
            runs.append(("forced%d" % i, snapshot(env, entry, "f%d" % i, sp, None, target)))
        for gmp in (1, 2, 16):
            runs.append(("natural-gmp%d" % gmp, snapshot(env, entry, "n%d" % gmp, None, gmp, target)))
        # the wasm back end, for projects that build
        if runs[0][1]["cls"] == "ACCEPT":
            for i, rd in enumerate(c["rounds"][:2]):
                runs.append(("wasm-forced%d" % i,
                             snapshot(env, entry, "w%d" % i, os.path.join(d, "sched%d.txt" % i), None, "wasm")))
            runs.append(("wasm-natural", snapshot(env, entry, "wn", None, 16, "wasm")))
        return c, runs

    results = core.pmap(do, cases, workers=12)

    # code -> spec: validate every run and obtain the specification's Output for it
    traces, owners = [], []
    for ci, (c, runs) in enumerate(results):
        for ri, (name, s) in enumerate(runs):
            if s["cls"] in ("CRASH", "HANG"):
                chk.fail("C14|%s|%s" % (project_key(c), s["cls"]), "compiler %s" % s["cls"],
                         {"project": project_key(c), "case": c})
                continue
            t = loader.spec_events(c, s["events"])
            t[0]["id"] = len(traces) + 1
            t[0]["ndiag"] = c["ndiag"]
            traces.append(t)
            owners.append((ci, ri))
    outs = validate_with_outputs(env, traces)
    n_valid = sum(1 for o in outs if o is not None)

    groups_checked = pairs_same = pairs_diff = 0
    not_followed = 0
    for ci, (c, runs) in enumerate(results):
        pk = project_key(c)
        by_spec = {}
        for ti, (cj, ri) in enumerate(owners):
            if cj != ci:
                continue
            name, s = runs[ri]
            if not s["followed"]:
                not_followed += 1
            if outs[ti] is None:
                chk.fail("C14|%s|trace|%s" % (pk, name), "recorded run is not a behaviour of ModuleLoader",
                         {"project": pk, "case": c, "run": name, "trace": traces[ti][:80]})
                continue
            kind = "wasm" if name.startswith("wasm") else "native"
            by_spec.setdefault((kind, json.dumps(outs[ti], sort_keys=True)), []).append((name, s))
        for (kind, so), members in by_spec.items():
            groups_checked += 1
            ref_name, ref = members[0]
            for name, s in members[1:]:
                if real_key(s) == real_key(ref):
                    pairs_same += 1
                else:
                    what = diff_what(ref, s)
                    chk.fail("C14|%s|%s" % (pk, what),
                             "runs '%s' and '%s' of the same project are the same behaviour for the specification "
                             "(same diagnostics, literal names, module order) but the compiler's %s differ"
                             % (ref_name, name, what),
                             {"project": pk, "case": c, "runs": [ref_name, name],
                              "a": {"rc": ref["rc"], "text": ref["text"][-1200:], "files": ref["files"]},
                              "b": {"rc": s["rc"], "text": s["text"][-1200:], "files": s["files"]}})
        # design-level schedule dependence that shows on the real binary: known-finding classes
        nat = [(k, m) for k, m in by_spec.items() if k[0] == "native"]
        for i in range(len(nat)):
            for j in range(i + 1, len(nat)):
                a, b = nat[i][1][0][1], nat[j][1][0][1]
                if real_key(a) != real_key(b):
                    pairs_diff += 1
                    cls = classify_design_diff(json.loads(nat[i][0][1]), json.loads(nat[j][0][1]))
                    chk.fail("C14|design|" + cls,
                             "schedule-dependent by design (%s): two schedules of project %s give different %s"
                             % (cls, pk, diff_what(a, b)), {"project": pk, "case": c})
        chk.sample({"project": pk, "runs": [n for n, _ in runs], "spec_output_groups": len(by_spec)}, cap=5)
    if not_followed > 0.2 * max(1, len(traces)):
        raise core.Undecided("%d forced schedules were not followed" % not_followed)

    chk.cov.update({
        "states": r0["distinct"], "transitions": r0["states"],
        "traces_validated_against_impl": n_valid, "projects": len(results), "runs": len(traces),
        "spec_output_groups_compared": groups_checked, "identical_pairs": pairs_same,
        "design_nondeterministic_projects_sampled": design_nd,
        "design_divergences_reproduced_on_binary": pairs_diff,
        "evaluations": len(traces), "distinct_nontrivial": len({project_key(c) for c, _ in results}),
        "rule": "TLC -simulate draws projects (<=4 modules, 0-1 function literals and 0/4 erroneous lines plus a tail of 40 "
                "unclosed blocks (identical end-of-file diagnostics) per module) with 3 random schedules each; distinct = distinct projects; each run is compared with the "
                "runs the specification maps to the same Output",
    })
    chk.assumptions += ["the diagnostic count per erroneous source line / per unclosed block is abstracted (>=2 same-line diagnostics; identical diagnostics at the end of the file)",
                        "runs of one project happen in the same directory so paths in diagnostics are equal"]
    return chk.finish()


def diff_what(a, b):
    w = []
    if a["rc"] != b["rc"]:
        w.append("exit status")
    if a["text"] != b["text"]:
        w.append("diagnostics text/order")
    if a["files"] != b["files"]:
        w.append("generated code (%s)" % ",".join(sorted(k for k in set(a["files"]) | set(b["files"])
                                                           if a["files"].get(k) != b["files"].get(k))))
    return " and ".join(w) or "nothing"


def validate_with_outputs(env, traces):
    """Validate all traces in one TLC run (Trace_LoaderOut.cfg) and return the spec Output per trace
    (None for traces that were rejected)."""
    if not traces:
        return []

    def run(batch):
        wd = env.tmpdir("ltr")
        with open(os.path.join(wd, "trace.ndjson"), "w") as f:
            for t in batch:
                for e in t:
                    f.write(json.dumps(e) + "\n")
        r = tlc.run(wd, "MC_LoaderTrace", "Trace_LoaderOut.cfg", ["loader"], workers=1, timeout=1800,
                    case_prefix="@@OUT ")
        ok = r["finished"] and not r["error"]
        shutil.rmtree(wd, ignore_errors=True)
        return ok, {o["id"]: o["out"] for o in r["cases"]}, r
    ok, outs, r = run(traces)
    res = [outs.get(t[0]["id"]) for t in traces]
    if ok:
        return res
    # a rejected trace stops the concatenated run: validate the remaining ones in chunks, then alone
    pending = [i for i, o in enumerate(res) if o is None]
    bad = 0
    while pending and bad < 6:
        chunk = pending[:40]
        ok, outs, _ = run([traces[i] for i in chunk])
        got = [i for i in chunk if traces[i][0]["id"] in outs]
        for i in got:
            res[i] = outs[traces[i][0]["id"]]
        rest = [i for i in chunk if i not in got]
        if ok or not rest:
            pending = [i for i in pending if i not in chunk]
            continue
        # the first trace without output is the rejected one
        bad += 1
        pending = [i for i in pending if i not in got and i != rest[0]]
    return res
