"""C12 — visibility by capitalisation is enforced across modules and types.

Spec: spec/lang/Visibility.tla (AllowedSym / AllowedField and the enumerated product of symbol kind x
case x access site x syntactic context x import shape).  Binding, spec -> code: each case is rendered
as a multi-file project and compiled by the real front end:  not Allowed => not accepted;
Allowed => accepted (a rejection counts only when a visibility diagnostic is reported; rejections
for unrelated reasons make the case void)."""
import json
import os
import re

from vlib import core, fesrv, tlc
from vlib.env import Env

VIS = re.compile(r"private|not exported|unexported|not accessible|not visible|cannot access", re.I)


def names(exported):
    return {"enum": "Hue" if exported else "hue", "fn": "Fun" if exported else "fun", "const": "Kon" if exported else "kon",
            "var": "Vee" if exported else "vee", "type": "Typ" if exported else "typ",
            "field": "Fld" if exported else "fld"}


LIB_TMPL = '''const Kon: i32 = 7;
const kon: i32 = 8;
let Vee: i32 = 9;
let vee: i32 = 10;
type Typ struct { .A: i32 };
type typ struct { .A: i32 };
fn Fun() -> i32 { return 1; }
fn fun() -> i32 { return 2; }
type Box struct { .Fld: i32, .fld: i32 };
type Outer struct { .In: Box };
fn MakeBox() -> Box { return { .Fld = 1, .fld = 2 } as Box; }
fn MakeOuter() -> Outer { return { .In = { .Fld = 1, .fld = 2 } as Box } as Outer; }
fn take(n: i32) -> i32 { return n; }
fn takeRef(r: &'i32) { r = 5; }
type Vault struct { .Fld: i32, .fld: i32 };
type OuterV struct { .In: Vault };
fn (v: &Vault) Fld() -> i32 { return 70; }
fn (v: &Vault) fld() -> i32 { return 71; }
fn MakeVault() -> Vault { return { .Fld = 1, .fld = 2 } as Vault; }
fn MakeOuterV() -> OuterV { return { .In = { .Fld = 1, .fld = 2 } as Vault } as OuterV; }
type Hue enum { Red, Green };
type hue enum { Dark, Light };
fn RankHue(h: Hue) -> i32 { return 1; }
fn RankLow(h: hue) -> i32 { return 2; }
fn MakeHue() -> Hue { return Hue::Red; }
fn MakeLow() -> hue { return hue::Dark; }
'''


def value_stmt(ctx, ref, kind):
    """Statements using value expression `ref` (i32-typed) in a syntactic context."""
    call = ref + "()" if kind == "fn" else ref
    if ctx == "plain":
        return ["let z: i32 = %s;" % call]
    if ctx == "paren":
        return ["let z: i32 = (%s);" % call]
    if ctx == "arg":
        return ["let z: i32 = LTAKE(%s);" % call]
    if ctx == "binop":
        return ["let one: i32 = 1;", "let z: i32 = one + %s;" % call]
    if ctx == "cond":
        return ["if %s == 1 {", "}"] and ["if %s == 1 {" % call, "}"]
    if ctx == "elem":
        return ["let z: []i32 = [%s];" % call]
    if ctx == "ret":
        return ["return %s;" % call]
    if ctx == "closure":
        return ["let g := fn() -> i32 {", "    return %s;" % call, "};", "let z: i32 = g();"]
    if ctx == "compound":
        return ["let n: i32 = 0;", "n += %s;" % call]
    if ctx == "match":
        return ["match %s {" % call, "    1 => { }", "    _ => { }", "}"]
    if ctx == "cast":
        return ["let z: i64 = %s as i64;" % call]
    if ctx == "write":
        return ["%s = 3;" % ref]
    if ctx == "range":
        return ["let lo: i32 = 0;", "for i in lo..%s {" % call, "}"]
    if ctx == "rangelo":
        return ["let hi: i32 = 20;", "for i in %s..hi {" % call, "}"]
    if ctx == "index":
        return ["let ds: []i32 = [1, 2, 3, 4, 5, 6, 7, 8, 9, 10, 11, 12];", "let z: i32 = ds[%s];" % call]
    if ctx == "unary":
        return ["let z: i32 = -%s;" % call]
    if ctx == "assignrhs":
        return ["let z: i32 = 0;", "z = %s;" % call]
    if ctx == "structinit":
        return ["let z := { .A = %s } as LTyp;" % call]
    if ctx == "whilecond":
        return ["let w: i32 = 100;", "while w < %s {" % call, "    w = w + 1;", "}"]
    raise core.Undecided("ctx " + ctx)


def enum_use(ctx, eref, exported, alias_prefix):
    """(top-level declarations, statements) naming the enum `eref` (qualified as needed)."""
    var = "Red" if exported else "Dark"
    rank = alias_prefix + ("RankHue" if exported else "RankLow")
    make = alias_prefix + ("MakeHue" if exported else "MakeLow")
    if ctx == "variant_init":
        return [], ["let z := %s::%s;" % (eref, var)]
    if ctx == "variant_arg":
        return [], ["let z: i32 = %s(%s::%s);" % (rank, eref, var)]
    if ctx == "variant_cmp":
        return [], ["if %s() == %s::%s {" % (make, eref, var), "}"]
    if ctx == "variant_match":
        return [], ["match %s() {" % make, "    %s::%s => { }" % (eref, var), "    _ => { }", "}"]
    if ctx == "variant_ret":
        return ["fn pickE() -> i32 {", "    let e := %s::%s;" % (eref, var), "    return %s(e);" % rank, "}"], []
    if ctx == "lettype":
        return [], ["let z: %s = %s();" % (eref, make)]
    if ctx == "param":
        return ["fn usesE(e: %s) -> i32 { return 1; }" % eref], []
    raise core.Undecided("ctx " + ctx)


def type_use(ctx, tref):
    """(top-level declarations, statements) using type `tref`."""
    if ctx == "lettype":
        return [], ["let z: %s = { .A = 1 } as %s;" % (tref, tref)]
    if ctx == "param":
        return ["fn usesT(t: &%s) -> i32 { return 1; }" % tref], []
    if ctx == "rettype":
        return ["fn makesT() -> %s { return { .A = 1 } as %s; }" % (tref, tref)], []
    if ctx == "fieldtype":
        return ["type Holder struct { .H: %s };" % tref], []
    if ctx == "elemtype":
        return [], ["let z: []%s = [];" % tref]
    if ctx == "literal":
        return [], ["let z := { .A = 1 } as %s;" % tref]
    raise core.Undecided("ctx " + ctx)


def field_stmts(op, ctx, base, fld, nested_base):
    """Statements performing `op` on field `fld` of struct expression `base` in context ctx."""
    b = {"plain": base, "paren": "(%s)" % base, "nested": nested_base + ".In", "arg": base, "closure": base,
         "cond": base}[ctx]
    e = "%s.%s" % (b, fld)
    if op == "read":
        core_ = {"plain": ["let z: i32 = %s;" % e], "paren": ["let z: i32 = %s;" % e],
                 "nested": ["let z: i32 = %s;" % e], "arg": ["let z: i32 = LTAKE(%s);" % e],
                 "closure": ["let g := fn() -> i32 {", "    return %s;" % e, "};", "let z: i32 = g();"],
                 "cond": ["if %s == 1 {" % e, "}"]}[ctx]
        return core_
    if op == "write":
        st = "%s = 4;" % e
    elif op == "compound":
        st = "%s += 1;" % e
    elif op == "borrow":
        st = "let br: &'i32 = &'%s;" % e
    else:
        raise core.Undecided("op " + op)
    if ctx == "closure":
        return ["let g := fn() {", "    " + st, "};", "g();"]
    return [st]


def render(c):
    """Returns {relative path: text} and the entry path."""
    a = c["c"]
    files = {}
    lib_dir = "sub/" if a["imp"] == "nested" else ""
    lib_path = lib_dir + "lib.fer"
    imp_path = "p/" + lib_dir + "lib"
    alias = "q" if a["imp"] == "alias" else "lib"
    imp_line = 'import "%s"%s;' % (imp_path, " as q" if a["imp"] == "alias" else "")
    lib = LIB_TMPL
    main_top, main_body = [], []
    if a["fam"] == "sym":
        nm = names(a["exported"])[a["kind"]]
        cross = a["site"] == "cross"
        ref = ("%s::%s" % (alias, nm)) if cross else nm
        ltake = ("%s::take" % alias) if cross else "take"
        ltake = "ltake"                                   # a local helper keeps the probe to ONE foreign name
        if a["kind"] == "enum":
            tops, stmts = enum_use(a["ctx"], ref, a["exported"], (alias + "::") if cross else "")
        elif a["kind"] == "type":
            tops, stmts = type_use(a["ctx"], ref)
        else:
            tops, stmts = [], [s.replace("LTAKE", ltake) for s in value_stmt(a["ctx"], ref, a["kind"])]
        helper = ["fn ltake(n: i32) -> i32 { return n; }", "type LTyp struct { .A: i32 };"]
        tail = [] if a["ctx"] == "ret" else ["    return 0;"]
        fn = helper + tops + ["fn probe() -> i32 {"] + ["    " + s for s in stmts] + tail + ["}"]
        if cross:
            main_top = fn
            main_body = ["    let r: i32 = probe();"]
        else:
            lib += "\n".join(["fn ltake(n: i32) -> i32 { return n; }", "type LTyp struct { .A: i32 };"] + tops +
                             ["fn Probe() -> i32 {"] + ["    " + s for s in stmts] + tail + ["}"]) + "\n"
            main_body = ["    let r: i32 = %s::Probe();" % alias]
    else:
        fld = names(a["exported"])["field"]
        site, op, ctx = a["site"], a["op"], a["ctx"]
        if op == "literal":
            tref = ("%s::Box" % alias) if site == "cross" else "Box"
            stmts = ["let bx := { .Fld = 1, .fld = 2 } as %s;" % tref] if not a["exported"] else \
                ["let bx := { .Fld = 3, .fld = 0 } as %s;" % tref]
            if site == "cross":
                main_body = ["    " + s for s in stmts]
            else:
                lib += "fn Probe() -> i32 {\n" + "\n".join("    " + s for s in stmts) + "\n    return 0;\n}\n"
                main_body = ["    let r: i32 = %s::Probe();" % alias]
        else:
            mutating = op in ("write", "compound", "borrow")
            rf = "&'" if mutating else "&"
            if site == "recv":
                if ctx == "nested":
                    stmts = field_stmts(op, ctx, "s", fld, "s")
                    lib += "fn (s: %sOuter) Probe() -> i32 {\n" % rf
                else:
                    stmts = field_stmts(op, ctx, "s", fld, "o")
                    lib += "fn (s: %sBox) Probe() -> i32 {\n" % rf
                lib += "\n".join("    " + x.replace("LTAKE", "take") for x in stmts) + "\n    return 0;\n}\n"
                mk = "MakeOuter" if ctx == "nested" else "MakeBox"
                main_body = ["    let v := %s::%s();" % (alias, mk), "    let r: i32 = v.Probe();"]
            elif site in ("shadow_let", "shadow_for", "shadow_param"):
                stmts = [x.replace("LTAKE", "take") for x in field_stmts(op, ctx, "s", fld, "s")]
                ind = "\n".join("        " + x for x in stmts)
                if site == "shadow_let":
                    body = "    if gate == 1 {\n        let s: Box = MakeBox();\n%s\n    }\n" % ind
                elif site == "shadow_for":
                    body = "    let bs: []Box = [MakeBox()];\n    for s in bs {\n%s\n    }\n" % ind
                else:
                    body = "    let g := fn(s: %sBox) {\n%s\n    };\n    let t: Box = MakeBox();\n    g(%st);\n" % (rf, ind, rf)
                lib += "fn (s: &Box) Probe(gate: i32) -> i32 {\n" + body + "    return 0;\n}\n"
                main_body = ["    let v := %s::MakeBox();" % alias, "    let r: i32 = v.Probe(1);"]
            elif site == "peer":
                ty = "Outer" if ctx == "nested" else "Box"
                stmts = field_stmts(op, ctx, "o", fld, "o")
                lib += "fn (s: &Box) Probe(o: %s%s) -> i32 {\n" % (rf, ty)
                lib += "\n".join("    " + x.replace("LTAKE", "take") for x in stmts) + "\n    return 0;\n}\n"
                mk = "MakeOuter" if ctx == "nested" else "MakeBox"
                main_body = ["    let v := %s::MakeBox();" % alias, "    let w := %s::%s();" % (alias, mk),
                             "    let r: i32 = v.Probe(%sw);" % rf]
            elif site == "free_own":
                ty = "Outer" if ctx == "nested" else "Box"
                stmts = field_stmts(op, ctx, "o", fld, "o")
                lib += "fn Probe(o: %s%s) -> i32 {\n" % (rf, ty)
                lib += "\n".join("    " + x.replace("LTAKE", "take") for x in stmts) + "\n    return 0;\n}\n"
                mk = "MakeOuter" if ctx == "nested" else "MakeBox"
                main_body = ["    let w := %s::%s();" % (alias, mk), "    let r: i32 = %s::Probe(%sw);" % (alias, rf)]
            else:  # cross: a function of another module
                mk = "MakeOuter" if ctx == "nested" else "MakeBox"
                stmts = field_stmts(op, ctx, "o", fld, "o")
                main_top = ["fn ltake(n: i32) -> i32 { return n; }"]
                main_body = ["    let o := %s::%s();" % (alias, mk)] + \
                    ["    " + x.replace("LTAKE", "ltake") for x in stmts]
    main_text = "\n".join([imp_line] + main_top + ["fn main() {"] + main_body + ["}"]) + "\n"
    if a["fam"] == "field" and a.get("twin"):
        # the same case on the struct type that also has methods named like its fields
        def tw(t):
            for x, y in (("MakeOuter", "MakeOuterV"), ("MakeBox", "MakeVault"), ("Outer", "OuterV"), ("Box", "Vault")):
                t = re.sub(r"\b%s\b" % x, y, t)
            return t
        lib = LIB_TMPL + tw(lib[len(LIB_TMPL):])
        main_text = tw(main_text)
    files[lib_path] = lib
    files["main.fer"] = main_text
    return files


def run(tier, seed, replay=None):
    chk = core.Check("C12", tier, seed, "model_checking")
    env = Env()
    env.build_all()
    res = tlc.require_ok(tlc.run(env.tmpdir("tlc"), "Visibility", "Gen_Visibility.cfg", ["lang"], workers=4), "Visibility")
    cases = res["cases"]
    if replay:
        with open(replay) as f:
            rk = json.load(f)["key"]
        cases = [c for c in cases if c["key"] == rk]
    pool = fesrv.Pool(env)
    jobs = []
    for c in cases:
        d = os.path.join(env.tmpdir("c12"), "p")
        for rel, text in render(c).items():
            path = os.path.join(d, rel)
            os.makedirs(os.path.dirname(path), exist_ok=True)
            with open(path, "w") as f:
                f.write(text)
        c["_p"] = os.path.join(d, "main.fer")
        jobs.append({"entry": c["_p"], "skip": True})
    obs = pool.compile_many(jobs)
    n_void = n_ok_rej = n_ok_acc = n_crash = 0
    voids = []
    void_reasons = {}
    susp = []
    for c, o in zip(cases, obs):
        if not c["allowed"]:
            if o["cls"] == "ACCEPT":
                susp.append(c)
            else:
                n_ok_rej += 1
                if o["cls"] == "CRASH":
                    n_crash += 1        # not compiled (fine for C12); the crash itself belongs to C13
        else:
            if o["cls"] == "ACCEPT":
                n_ok_acc += 1
            elif o["cls"] == "REJECT" and any(VIS.search(e["msg"]) for e in o["errors"]):
                chk.fail(c["key"], "an access the rule allows is rejected with a visibility diagnostic: %s"
                         % o["errors"][0]["msg"][:100], {"case": c["c"], "files": render(c)})
            else:
                n_void += 1
                rk = re.sub(r"'[^']*'|\d+", "#", (o["errors"][0]["msg"] if o["errors"] else o["cls"]))[:60]
                void_reasons[rk] = void_reasons.get(rk, 0) + 1
                if len(voids) < 10:
                    voids.append({"key": c["key"], "cls": o["cls"], "msg": [e["msg"][:70] for e in o["errors"]][:2]})
    for c, o2 in zip(susp, core.pmap(lambda c: env.compile(c["_p"], typecheck_only=True), susp, workers=8)):
        if o2["cls"] == "ACCEPT":
            chk.fail(c["key"], "an access to a lowercase %s that the rule forbids is accepted"
                     % ("symbol" if c["c"]["fam"] == "sym" else "field"), {"case": c["c"], "files": render(c)})
    if n_void > 0.4 * len(cases):
        raise core.Undecided("too many void cases (%d of %d): %s" % (n_void, len(cases), voids[:4]))
    for c in cases[:2] + cases[-2:]:
        chk.sample({"key": c["key"], "allowed": c["allowed"]})
    chk.cov.update({
        "states": res["distinct"], "transitions": res["states"], "traces_validated_against_impl": len(cases) - n_void,
        "cases": len(cases), "forbidden_rejected": n_ok_rej, "allowed_accepted": n_ok_acc, "void": n_void,
        "void_examples": voids, "void_reasons": void_reasons, "forbidden_not_compiled_because_of_crash": n_crash,
        "evaluations": len(cases), "distinct_nontrivial": len(cases) - n_void, "exhaustive": True,
        "rule": "4 symbol kinds x {upper, lower} x {own, other module} x 12 value / 6 type contexts x 3 import shapes, "
                "and field accesses {upper, lower} x 4 sites x 5 operations x 6 contexts x 3 import shapes (544 "
                "well-formed cases); non-trivial = not void",
    })
    chk.assumptions += ["an allowed access rejected without a visibility diagnostic (e.g. an unsupported cross-module "
                        "construct) is void, not a violation"]
    return chk.finish()
