"""C02 — the QBE (native) and WebAssembly back ends agree.

Spec: FerretSem / SemCheck (spec/lang): every program is built for both targets and run (native executable;
.wasm under the shipped runtime.js); the two recorded behaviours are handed to TLC together, which decides
`agree` (same lines, same kind of termination) and, for the report, which of the two records is the behaviour
FerretSem prescribes.  Programs: the TLC-enumerated boundary expressions (ExprGen) over the integer types the
wasm back end implements, the feature corpus, seeded random programs (pointer size 8 natively, 4 on wasm:
structs, arrays and references are laid out differently), and a few floating-point programs compared as
numbers.  Programs not accepted by both targets are void and counted."""
import json
import os
import random
import re

from vlib import core, corpus, progen, semrun
from vlib.env import Env
from checks import c01

NARROW = {"wide": False, "struct": True, "farr": True, "darr": True, "refs": True, "calls": True, "match": True,
          "for": True, "cast": True, "byval": True, "opt": False, "res": False, "clo": False}

FLOAT_PROGRAMS = {
    "float_arith": """import "std/io";
fn half(x: f64) -> f64 {
    return x / 2.0;
}
fn main() {
    let a: f64 = 10.5;
    let b: f64 = half(a) + 0.25;
    io::Println(b);
    let c: f32 = 3.5;
    let d: f32 = c * 2.0;
    io::Println(d);
    let n: i32 = 7;
    let e: f64 = (n as f64) / 2.0;
    io::Println(e);
    let k: i32 = e as i32;
    io::Println(k);
    let big: f64 = 1.0e19;
    io::Println(big);
    let t: f64 = 0.1 + 0.2;
    io::Println(t);
    io::Println(a > b);
}
""",
    "float_to_int": """import "std/io";
fn main() {
    let f: f64 = 3000000000.0;
    let u: u32 = f as u32;
    io::Println(u);
    let g: f64 = 1.0e19;
    let v: u64 = g as u64;
    io::Println(v);
    let h: f32 = 200.0;
    let w: u8 = h as u8;
    io::Println(w);
    let n: f64 = -3.9;
    let k: i32 = n as i32;
    io::Println(k);
    let m: i64 = -5;
    let q: f64 = m as f64;
    io::Println(q / 2.0);
}
""",
    "float_loop": """import "std/io";
fn main() {
    let s: f64 = 0.0;
    let i: i32 = 0;
    while i < 10 {
        s = s + (i as f64) * 0.5;
        i = i + 1;
    }
    io::Println(s);
    let u: u32 = 4000000000;
    let f: f64 = u as f64;
    io::Println(f);
    let g: f32 = 1024.5;
    io::Println(g);
    let neg: f64 = -2.75;
    io::Println(neg as i32);
}
""",
}


def as_numbers(lines):
    out = []
    for ln in lines:
        try:
            out.append(float(ln))
        except ValueError:
            out.append(ln)
    return out


def same_numbers(a, b):
    """Numbers are equal up to the 15 significant digits the native runtime prints (runtime/libs/io.c print_float)."""
    if len(a) != len(b):
        return False
    for x, y in zip(a, b):
        if isinstance(x, float) and isinstance(y, float):
            if x != y and abs(x - y) > 1e-14 * max(abs(x), abs(y)):
                return False
        elif x != y:
            return False
    return True


# Programs outside the generator's language, compared target against target like the float programs: regressions
# of repaired defects and the witnesses of recorded findings (keys C02|witness|<name>).
TEXT_PROGRAMS = {
    "literal_spellings": """import "std/io";
fn main() {
    let a: i32 = 010;
    let b: i32 = 0o17;
    let c: i32 = 0x1F;
    let d: i32 = 0b101;
    let e: i32 = -007;
    let f: i64 = 0000123456789012;
    io::Println(a);
    io::Println(b);
    io::Println(c);
    io::Println(d);
    io::Println(e);
    io::Println(f);
}
""",
    "mixed_width_compare": """import "std/io";
fn main() {
    let a: i32 = -5;
    let b: i64 = 7;
    let c: u32 = 4000000000;
    let d: i64 = -1;
    let e: i64 = -5;
    io::Println(a < b);
    io::Println(b < a);
    io::Println(c > d);
    io::Println(d >= c);
    io::Println(a == d);
    io::Println(a == e);
    io::Println(e != a);
}
""",
    "wasm_memory_not_grown": """import "std/io";
type P struct { .A: i64, .B: i64, .C: i64, .D: i64 };
fn main() {
    let i: i32 = 0;
    let acc: i64 = 0;
    while i < 40000 {
        let p: P = { .A = 1, .B = 2, .C = 3, .D = 4 };
        acc = acc + p.A + p.D;
        i = i + 1;
    }
    io::Println(acc);
}
""",
    "wasm_array_growth": """import "std/io";
fn main() {
    let d: []i64 = [];
    let i: i32 = 0;
    while i < 50000 {
        append(&'d, i as i64);
        i = i + 1;
    }
    let s: i64 = 0;
    for j in 0..49999 {
        s = s + d[j];
    }
    io::Println(s, len(d));
}
""",
}


def run(tier, seed, replay=None):
    chk = core.Check("C02", tier, seed, "translation_validation")
    env = Env()
    env.build_all()
    rnd = random.Random(seed)
    ec, rex = c01.expr_cases(env, tier, rnd)
    wide_cases = [c for c in ec if "128" in c["ty"] + c["op"] or "256" in c["ty"] + c["op"]]
    ec = [c for c in ec if not ("128" in c["ty"] + c["op"] or "256" in c["ty"] + c["op"])]
    progs = []
    for i in range(0, len(ec), c01.PER_PROG):
        ch = ec[i:i + c01.PER_PROG]
        for opaque in (True, False):
            p, lm = progen.expr_program(ch, opaque)
            progs.append((p, "expr%s:%d" % ("" if opaque else "-let", i), ("expr", ch, lm)))
    for c in rex["special"]:
        if "128" not in c["ty"] and "256" not in c["ty"]:
            p, lm = progen.expr_program([c], True)
            progs.append((p, "solo:%s%s%s" % (c["ty"], c["op"], c["sp"]), ("solo", c, lm)))
    for name, p in corpus.programs():
        progs.append((p, "corpus:" + name, ("corpus", name, None)))
    # layout-sensitive programs (pointer size 8 natively, 4 on wasm): the store / read-back / copy programs of C18 for
    # the TLC-enumerated arrays of structs and nested arrays that both targets implement
    from checks import c18
    from vlib import laygen
    lay, _ = c18.gen_types(env, "d2")
    lay = [t for t in lay if t["k"] == "ar" and laygen.wasm_ok(t)]
    if tier == "quick":
        lay = rnd.sample(lay, min(len(lay), 14))
    for t in lay:
        progs.append((laygen.program(t), "layout:" + c18.sig(t), ("corpus", "layout:" + c18.sig(t), None)))
    n_rand = 200 if tier == "quick" else 5000
    for i in range(n_rand):
        s = seed * 100000 + i
        p, _ = progen.gen_program(s, size=random.Random(s).choice([6, 10, 14]), features=NARROW)
        progs.append((p, "rand:%d" % s, ("rand", s, None)))
    # the wide integer types: a handful, to keep the known limitation visible without drowning the run
    for i in range(0, min(len(wide_cases), 3 * c01.PER_PROG), c01.PER_PROG):
        p, lm = progen.expr_program(wide_cases[i:i + c01.PER_PROG], True)
        progs.append((p, "expr-wide:%d" % i, ("wide", None, None)))
    if replay:
        with open(replay) as f:
            rp = json.load(f)["replay"]
        progs = [(rp["prog"], rp["name"], ("rand", 0, None))]

    pairs = [(p, n) for p, n, _ in progs]
    nat = semrun.observe(env, pairs, "native")
    wsm = semrun.observe(env, pairs, "wasm")
    errors = semrun.judge(env, nat, second=wsm)
    if errors:
        raise core.Undecided("FerretSem could not evaluate %d programs, e.g. %s" % (len(errors), errors[0][1][:400]))
    stats = {"agree": 0, "void": 0, "both_panic": 0, "spec_confirms_both": 0}
    for (prog, name, meta), a, b in zip(progs, nat, wsm):
        rep = {"name": name, "program": a["text"], "prog": prog}
        wide = semrun.uses_wide(prog)
        if a["status"] in ("crash", "hang") or b["status"] in ("crash", "hang"):
            side, ob = ("native", a) if a["status"] in ("crash", "hang") else ("wasm", b)
            chk.fail("C02|compiler-%s|%s|%s|%s" % (ob["status"], side, ob["site"], ob["msg"][:50]),
                     "the %s build of a program makes the compiler %s: %s" % (side, ob["status"], ob["msg"]), rep)
            continue
        if a["status"] in ("rejected", "void") or b["status"] in ("rejected", "void"):
            stats["void"] += 1            # not accepted by both targets
            continue
        if meta[0] == "solo":
            # a trap is a way of terminating: both abnormal = agreement, one only = disagreement
            a_ab = (a["status"] == "badrun" and "TRAP" in a["msg"]) or (a["status"] == "ran" and a["halt"] == "panic")
            b_ab = b["status"] == "ran" and b["halt"] == "panic"
            c = meta[1]
            same = (a_ab and b_ab) or (a["status"] == "ran" and b["status"] == "ran" and a["verdict"] is not None and a["verdict"]["agree"])
            if same:
                stats["agree"] += 1
                stats["both_panic"] += bool(a_ab)
            else:
                chk.fail("C02|expr|%s|%s|%s" % (c["ty"], c["op"], c["sp"]),
                         "%s %s on %d, %d: native %s, wasm %s" % (c["ty"], c["op"], progen.case_value(c, "a"), progen.case_value(c, "b"),
                                                                  "ends abnormally (%s)" % a.get("msg", a.get("halt")) if a_ab else "prints %r" % a.get("out"),
                                                                  "ends abnormally" if b_ab else "prints %r" % b.get("out")), rep)
            continue
        if b["status"] == "badrun" and a["status"] == "ran":
            cls = re.sub(r"#\d+|@\+\d+|\d+", "#", b["msg"])[:70]
            chk.fail("C02|wasm-module-unusable|%s" % ("wide-integers" if wide else cls),
                     "both targets accept the program; natively it prints %d lines and ends with %s, the .wasm module cannot be "
                     "run: %s" % (len(a["out"]), a["halt"], b["msg"]), rep)
            continue
        if a["status"] != "ran" or b["status"] != "ran":
            chk.fail("C02|run|%s|%s" % (a["status"], b["status"]), "native: %s, wasm: %s" % (a.get("msg"), b.get("msg")), rep)
            continue
        v = a["verdict"]
        if v is None:
            raise core.Undecided("no verdict for %s" % name)
        if v["agree"]:
            stats["agree"] += 1
            stats["both_panic"] += a["halt"] == "panic"
            stats["spec_confirms_both"] += bool(v["ok"])
            continue
        k, real, other = semrun.first_diff(b["out"], a["out"], b["halt"], a["halt"])
        who = "native is the prescribed behaviour" if v["ok"] else "wasm is the prescribed behaviour" if v["ok2"] else "neither is the prescribed behaviour"
        if meta[0] == "expr" and k < len(meta[2]):
            c = meta[1][meta[2][k]]
            key = "C02|expr|%s|%s" % (c["ty"], c["op"])
            what = "%s %s on %d, %d: wasm prints %r, native %r (%s)" % (c["ty"], c["op"], progen.case_value(c, "a"),
                                                                      progen.case_value(c, "b"), real, other, who)
        else:
            key = "C02|disagree|%s" % (name if meta[0] == "corpus" else c01.signature(prog))
            what = "line %d: wasm gives %r, native %r (%s; %s)" % (k + 1, real, other, who, name)
        chk.fail(key, what, dict(rep, native=a["out"], wasm=b["out"], native_halt=a["halt"], wasm_halt=b["halt"]))

    # floating point: compared as numbers, outside FerretSem (TLC has no reals)
    n_float = 0
    for name, text in FLOAT_PROGRAMS.items():
        (o1, r1), (o2, r2) = semrun.build_and_run(env, text, "native"), semrun.build_and_run(env, text, "wasm")
        if o1["cls"] != "ACCEPT" or o2["cls"] != "ACCEPT":
            stats["void"] += 1
            continue
        n_float += 1
        if r1["cls"] != r2["cls"] or not same_numbers(as_numbers(r1["out"].split("\n")), as_numbers(r2["out"].split("\n"))):
            chk.fail("C02|float|%s" % name, "native prints %r (%s), wasm %r (%s)" % (r1["out"][:200], r1["cls"], r2["out"][:200], r2["cls"]),
                     {"name": name, "program": text})
    n_text = 0
    for name, text in TEXT_PROGRAMS.items():
        (o1, r1), (o2, r2) = semrun.build_and_run(env, text, "native"), semrun.build_and_run(env, text, "wasm")
        if o1["cls"] != "ACCEPT" or o2["cls"] != "ACCEPT":
            stats["void"] += 1
            continue
        n_text += 1
        if r1["cls"] != r2["cls"] or r1["out"] != r2["out"]:
            chk.fail("C02|witness|%s" % name, "native prints %r (%s), wasm %r (%s %s)" % (r1["out"][:120], r1["cls"], r2["out"][:120], r2["cls"], r2["err"][:100]),
                     {"name": name, "program": text})
        else:
            stats["agree"] += 1
    chk.cov["text_programs"] = n_text
    for a in nat[:1] + nat[-1:]:
        chk.sample({"name": a["name"], "source": a["text"][:600], "native": a.get("out", [])[:5]})
    chk.cov.update({
        "programs": len(progs) + len(FLOAT_PROGRAMS), "accepted_by_both_and_agreeing": stats["agree"], "void_not_accepted_by_both": stats["void"],
        "agreeing_abnormal_terminations": stats["both_panic"], "agreeing_and_prescribed_by_FerretSem": stats["spec_confirms_both"],
        "boundary_expression_cases": len(ec), "random_programs": n_rand, "float_programs": n_float,
        "states": rex["distinct"], "transitions": rex["states"], "evaluations": 2 * len(progs), "distinct_nontrivial": stats["agree"],
        "rule": "every program built with -target native and -target wasm, run (executable / node + runtime/wasm/runtime.js); TLC "
                "(SemCheck) receives both records: agree = same lines and same kind of termination (exit vs panic-or-trap)",
    })
    chk.assumptions += ["128/256-bit integer programs are represented by three programs only (known finding: the wasm runtime has no "
                        "wide-integer support)", "floating-point programs are compared as numbers (to the 15 significant digits the native runtime prints) by the harness, not by TLC"]
    return chk.finish()
