"""C16 — 128/256-bit integer arithmetic is exact modulo 2^N.

Spec: spec/lib/BigNum.tla (pure-TLA+ arbitrary precision, self-tested against TLC integers),
spec/bigint/BigIntApi.tla (what each exported operation must return) and BigPatterns.tla (operand
enumerator: every limb from six boundary classes).  Binding, code -> spec: a C driver linked against
the working tree's bigint.c performs the calls (by-value and _ptr entry points) on the
TLC-enumerated operand patterns plus seeded random operands; TLC validates every logged call."""
import json
import os
import random
import subprocess

from vlib import core, tlc
from vlib.env import Env, REPO, VERIF

CLS = {"z": 0, "one": 1, "msb": 1 << 63, "msbm1": (1 << 63) - 1, "maxm1": (1 << 64) - 2, "max": (1 << 64) - 1}
BINOPS = ["add", "sub", "mul", "divmod", "cmp", "and", "or", "xor"]


def val_of(limbs):
    return sum(CLS[c] << (64 * i) for i, c in enumerate(limbs))


def build_driver(env, limb32=False):
    """limb32: the configuration bigint.h selects where the compiler has no 128-bit integer (32-bit limbs, 64-bit
    accumulator) -- the same source, the other of its two limb widths."""
    out = os.path.join(env.root, "bigint_driver" + ("32" if limb32 else ""))
    rt = os.path.join(REPO, "runtime", "core")
    cmd = ["clang", "-std=gnu99", "-g", "-O1", "-w", "-fsanitize=address,undefined", "-fno-sanitize-recover=all"] + \
          (["-U__SIZEOF_INT128__"] if limb32 else []) + \
          ["-I", rt, "-o", out, os.path.join(VERIF, "harness", "c", "bigint_driver.c"),
           os.path.join(rt, "bigint.c"), "-lm"]
    r = subprocess.run(cmd, capture_output=True, text=True)
    if r.returncode != 0:
        # bigint.c may need sibling files (alloc.c); retry with them
        cmd2 = cmd[:-1] + [os.path.join(rt, "alloc.c"), "-lm"]
        r = subprocess.run(cmd2, capture_output=True, text=True)
        if r.returncode != 0:
            raise core.Undecided("bigint driver does not build:\n" + r.stderr[-3000:])
    return out


def run(tier, seed, replay=None):
    chk = core.Check("C16", tier, seed, "model_checking")
    env = Env()
    drv = build_driver(env)
    drv32 = build_driver(env, limb32=True)
    rnd = random.Random(seed)

    # BigNum self-test (the oracle's own arithmetic against native TLC integers)
    tlc.require_ok(tlc.run(env.tmpdir("tlc"), "BigNumTest", "BigNumTest.cfg", ["lib"], workers=1), "BigNumTest")

    # design level: the limb algorithms of bigint.c at limb width 2, ALL operand pairs for 2 and 3 limbs (4 in the
    # thorough tier): carries, borrows, truncated products, shift-subtract division, the signed wrappers
    limb_states = 0
    for cfg in (["MC_Limb2.cfg", "MC_Limb3.cfg"] + (["MC_Limb4.cfg"] if tier == "thorough" else [])):
        rl = tlc.run(env.tmpdir("tlc"), "LimbArith", cfg, ["bigint"], workers=8, timeout=3000)
        if rl["violated"] or not rl["finished"]:
            raise core.Undecided("LimbArith (%s): an algorithm transcribed from bigint.c is wrong at the design level:\n%s"
                                 % (cfg, tlc.tail(rl["out"], 25)))
        limb_states += rl["distinct"]
    chk.cov["limb_algorithm_operand_pairs_checked"] = limb_states

    # operand patterns from TLC
    r2 = tlc.require_ok(tlc.run(env.tmpdir("tlc"), "BigPatterns", "Gen_Pat2.cfg", ["bigint"], workers=1), "Pat2")
    r4 = tlc.require_ok(tlc.run(env.tmpdir("tlc"), "BigPatterns", "Gen_Pat4.cfg", ["bigint"], workers=1), "Pat4")
    pairs = {128: [(val_of(c["a"]), val_of(c["b"])) for c in r2["cases"]],
             256: [(val_of(c["a"]), val_of(c["b"])) for c in r4["cases"]]}
    n_pat = len(pairs[128]) + len(pairs[256])

    lines = []

    def hx(v, bits):
        return "%x" % (v & ((1 << bits) - 1))

    if replay:
        with open(replay) as f:
            lines = json.load(f)["replay"]["calls"]
    else:
        budget = {128: 70 if tier == "quick" else 1296, 256: 90 if tier == "quick" else 4000}
        for bits in (128, 256):
            ps = pairs[bits][:]
            rnd.shuffle(ps)
            ps = ps[:budget[bits]]
            # seeded random operands as well (dense in ones/zero runs)
            for _ in range(25 if tier == "quick" else 1500):
                ps.append((rand_val(rnd, bits), rand_val(rnd, bits)))
            for i, (a, b) in enumerate(ps):
                for ty in ("u%d" % bits, "i%d" % bits):
                    ops = BINOPS if tier == "thorough" else rnd.sample(BINOPS, 4) + ["divmod", "sub"]
                    for op in dict.fromkeys(ops):
                        if op == "divmod" and b & ((1 << bits) - 1) == 0:
                            continue
                        api = "ptr" if (i % 3) else "val"
                        lines.append("%s %s %s %s %s" % (ty, op, hx(a, bits), hx(b, bits), api))
                    if i % 2 == 0:
                        lines.append("%s not %s" % (ty, hx(a, bits)))
                        for n in rnd.sample([0, 1, 31, 32, 63, 64, 65, 127, 128, 129, 200, 255, 256, 300], 3):
                            lines.append("%s shl %s %d" % (ty, hx(a, bits), n))
                            lines.append("%s shr %s %d" % (ty, hx(a, bits), n))
                        lines.append("%s to64 %s" % (ty, hx(a, bits)))
                        lines.append("%s from64 %s" % (ty, hx(a, 64)))
                        lines.append("%s tostr %s %s" % (ty, hx(a, bits), "0 ptr" if i % 4 else "0 val"))
                        lines.append("%s fromstr %s" % (ty, dec_of(a, bits, ty[0] == "i")))
                    if i % 5 == 0:
                        e = rnd.choice([0, 1, 2, 3, 5, 17, 64, 127, 128, 255, 256, 1000])
                        base = rnd.choice([a, a & 0xffff, 2, 3, (1 << bits) - 1, 10])
                        lines.append("%s pow %s %d %s" % (ty, hx(base, bits), e, "ptr" if i % 2 else "val"))
    if not lines:
        raise core.Undecided("no calls")

    # run the real code
    chunks = [lines[i::16] for i in range(16)]
    chunks = [c for c in chunks if c]
    # both limb widths of the source: 64-bit limbs (this platform) and 32-bit limbs; the quick tier sends every
    # second chunk through the 32-bit build as well
    jobs = [(drv, "", c) for c in chunks] + [(drv32, "|limb32", c) for k, c in enumerate(chunks) if tier == "thorough" or replay or k % 2 == 0]

    def exe(job):
        d, tag, chunk = job
        e = dict(os.environ)
        e["ASAN_OPTIONS"] = "detect_leaks=0:exitcode=77"
        e["UBSAN_OPTIONS"] = "halt_on_error=1:exitcode=78"
        r = subprocess.run([d], input="\n".join(chunk) + "\n", capture_output=True, text=True, env=e, timeout=900)
        return chunk, r.returncode, [ln for ln in r.stdout.split("\n") if ln.strip()], r.stderr, tag
    outs = core.pmap(exe, jobs)
    for chunk, rc, recs, se, tag in outs:
        if rc != 0:
            bad = chunk[min(len(recs), len(chunk) - 1)]
            chk.fail("C16|crash|" + " ".join(bad.split()[:2]) + tag, "the runtime crashed or a sanitizer fired on: %s :: %s"
                     % (bad, se.strip().split("\n")[:4]), {"calls": [bad]})

    # code -> spec
    def validate(item):
        chunk, rc, recs, se = item[:4]
        wd = env.tmpdir("bi")
        with open(os.path.join(wd, "trace.ndjson"), "w") as f:
            f.write("\n".join(regroup(x) for x in recs) + "\n")
        r = tlc.run(wd, "BigIntApi", "Trace_BigInt.cfg", ["bigint", "lib"], workers=1, timeout=3000)
        ok = r["finished"] and not r["error"]
        if not ok and "TraceAccepted" not in r["out"]:
            raise tlc.TLCError("BigIntApi validation did not run:\n" + tlc.tail(r["out"], 30))
        acc = (r["depth"] or 1) - 1
        return ok, acc, r["distinct"]
    vres = core.pmap(validate, outs, workers=16)
    n_ok = 0
    keys = set()
    for (chunk, rc, recs, se, tag), (ok, acc, _) in zip(outs, vres):
        pos = 0
        remaining = recs
        # walk over all rejected records of the chunk (re-validate the tail after each rejection)
        n_ok += acc if not ok else len(recs)
        guard = 0
        while not ok and guard < 4:
            guard += 1
            bad = json.loads(remaining[acc])
            k = "C16|%s|%s%s" % (bad["ty"], bad["op"], tag)
            keys.add(k)
            chk.fail(k, "%s %s: result is not the exact value mod 2^N: %s" % (bad["ty"], bad["op"], brief(bad)),
                     {"calls": [chunk[pos + acc]] if pos + acc < len(chunk) else [], "record": bad})
            pos += acc + 1
            remaining = remaining[acc + 1:]
            if not remaining:
                break
            ok, acc, _ = validate((chunk, 0, remaining, ""))
            n_ok += acc if not ok else len(remaining)
    for ln in lines[:3] + lines[-3:]:
        chk.sample(ln)
    ops_seen = sorted({(ln.split()[0], ln.split()[1]) for ln in lines})
    chk.cov.update({
        "states": len(lines) + 1, "transitions": len(lines), "traces_validated_against_impl": len(outs),
        "calls_logged": sum(len(o[2]) for o in outs), "calls_accepted": n_ok,
        "operand_patterns_from_tlc": n_pat, "evaluations": len(lines),
        "distinct_nontrivial": len(set(lines)), "type_op_pairs": len(ops_seen),
        "rule": "operands: all 2-limb patterns over 6 limb classes (36^2 pairs) and 4-limb patterns over 4 classes x a "
                "32-element cover, enumerated by TLC, plus seeded random operands; each with add/sub/mul/divmod/cmp/"
                "bitwise/not/shifts/pow/64-bit and decimal conversions on the signed and unsigned type; distinct = "
                "distinct call lines",
    })
    chk.assumptions += ["division by zero is not generated (the property does not define it)",
                        "the driver's hex/decimal printing of operands is trusted"]
    return chk.finish()


def regroup(rec):
    """Regroup the bits of every pattern field from hex nibbles into base-2^15 digits (little endian,
    no high zeros) -- BigNum's representation. A change of representation only; no arithmetic result is
    computed here."""
    o = json.loads(rec)
    for k in ("a", "b", "q", "r", "v"):
        if k in o:
            v = 0
            for d in o[k]:
                v = (v << 4) | d
            ds = []
            while v:
                ds.append(v & 32767)
                v >>= 15
            o[k] = ds
    return json.dumps(o)


def brief(b):
    def h(n):
        return "%x" % int("".join("%x" % d for d in n), 16) if n else "0"
    parts = []
    for k in ("a", "b", "q", "r", "v"):
        if k in b:
            parts.append("%s=0x%s" % (k, h(b[k])))
    for k in ("n", "e", "eq", "lt", "gt", "neg"):
        if k in b:
            parts.append("%s=%s" % (k, b[k]))
    if "digits" in b:
        parts.append("digits=" + "".join(str(d) for d in b["digits"]))
    return " ".join(parts)


def rand_val(rnd, bits):
    mode = rnd.random()
    if mode < 0.3:
        return rnd.getrandbits(bits)
    if mode < 0.6:                           # runs of ones / zeros
        v = 0
        pos = 0
        bit = rnd.getrandbits(1)
        while pos < bits:
            ln = rnd.choice([1, 7, 8, 31, 32, 33, 63, 64, 65])
            if bit:
                v |= ((1 << ln) - 1) << pos
            pos += ln
            bit ^= 1
        return v & ((1 << bits) - 1)
    if mode < 0.8:
        return rnd.getrandbits(rnd.choice([1, 8, 31, 32, 33, 63, 64, 65, 100]))
    return ((1 << bits) - rnd.getrandbits(rnd.choice([1, 8, 33, 64, 70]))) & ((1 << bits) - 1)


def dec_of(v, bits, signed):
    v &= (1 << bits) - 1
    if signed and v >> (bits - 1):
        return "-%d" % ((1 << bits) - v)
    return "%d" % v
