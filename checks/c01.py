"""C01 — native executables behave as the source program's defined semantics.

Spec: spec/lang/FerretSem.tla (definitional interpreter over spec/lib/BigNum.tla) and ExprGen.tla (small-scope
enumerator of boundary expressions).  Binding, code -> spec: every program is compiled natively and run; the
recorded lines and the way it terminated are validated by TLC against Run(P) (SemCheck.tla).  Programs come
from (a) TLC: every arithmetic / comparison / negation / cast shape over the 12 integer types with boundary
operands, (b) a seeded type-directed generator (vlib/progen.py) whose programs the specification itself
interprets, so the generator carries no expectation, (c) a fixed corpus of feature programs (vlib/corpus.py).
A generated program that is rejected or crashes the compiler is a violation (last sentence of the property)."""
import json
import random

from vlib import core, corpus, progen, semrun, tlc
from vlib.env import Env

PER_PROG = 24


def expr_cases(env, tier, rnd):
    rex = tlc.require_ok(tlc.run(env.tmpdir("tlc"), "ExprGen", "Gen_Expr.cfg", ["lang", "lib"], workers=12, timeout=1800), "ExprGen")
    ec = [c for c in rex["cases"] if not c.get("sp")]
    rex["special"] = sorted((c for c in rex["cases"] if c.get("sp")), key=lambda c: json.dumps(c, sort_keys=True))
    ec.sort(key=lambda c: json.dumps(c, sort_keys=True))
    rnd.shuffle(ec)
    if tier == "quick":          # a few cases of every (type, operator) stratum
        seen, keep = {}, []
        for c in ec:
            k = (c["ty"], c["op"])
            seen[k] = seen.get(k, 0) + 1
            if seen[k] <= 4:
                keep.append(c)
        ec = keep
    return ec, rex


def signature(prog):
    """Spec-level class of a program: the statement and expression kinds it is made of."""
    kinds = set()

    def we(e):
        if isinstance(e, dict):
            if "k" in e:
                kinds.add(e["k"] + (e.get("op", "") if e["k"] in ("bin",) else ""))
            for v in e.values():
                we(v)
        elif isinstance(e, list):
            for v in e:
                we(v)
    we(prog["main"])
    for f in prog["funcs"].values():
        we(f["body"])
    kinds -= {"int", "var", "let", "print"}
    return "+".join(sorted(kinds))[:80]


def build_programs(env, tier, seed):
    rnd = random.Random(seed)
    ec, rex = expr_cases(env, tier, rnd)
    progs, meta = [], []
    for i in range(0, len(ec), PER_PROG):
        ch = ec[i:i + PER_PROG]
        for opaque in (True, False):     # operands through opaque calls / as let-bound literals the evaluators see through
            p, lm = progen.expr_program(ch, opaque)
            progs.append((p, "expr%s:%d" % ("" if opaque else "-let", i)))
            meta.append(("expr", ch, lm))
    for c in rex["special"]:             # one program each: an operand pair on which hardware division traps
        p, lm = progen.expr_program([c], True)
        progs.append((p, "solo:%s%s%s" % (c["ty"], c["op"], c["sp"])))
        meta.append(("solo", c, lm))
    for name, p in corpus.programs():
        progs.append((p, "corpus:" + name))
        meta.append(("corpus", name, None))
    for name, p in corpus.witnesses():
        progs.append((p, "witness:" + name))
        meta.append(("witness", name, None))
    n_rand = 240 if tier == "quick" else 6000
    for i in range(n_rand):
        s = seed * 100000 + i
        p, _ = progen.gen_program(s, size=random.Random(s).choice([6, 10, 14]))
        progs.append((p, "rand:%d" % s))
        meta.append(("rand", s, None))
    return progs, meta, ec, rex, n_rand


def run(tier, seed, replay=None, target="native", pid="C01"):
    chk = core.Check(pid, tier, seed, "translation_validation")
    env = Env()
    env.build_all()
    progs, meta, ec, rex, n_rand = build_programs(env, tier, seed)
    if replay:
        with open(replay) as f:
            rp = json.load(f)["replay"]
        progs, meta = [(rp["prog"], rp["name"])], [("rand", 0, None)]

    obs = semrun.observe(env, progs, target)
    errors = semrun.judge(env, obs)
    if errors:
        raise core.Undecided("FerretSem could not evaluate %d generated programs, e.g. %s" % (len(errors), errors[0][1][:400]))
    stats = {"agree": 0, "void": 0, "fuel": 0}
    pending = []        # behaviour mismatches of whole programs, reduced below
    for ob, (kind, a, lm) in zip(obs, meta):
        rep = {"name": ob["name"], "program": ob["text"], "prog": ob["prog"]}
        st = ob["status"]
        if kind == "solo":             # a tagged operand pair, alone in its program
            v = ob.get("verdict")
            if not (st == "ran" and v is not None and v["ok"]):
                got = ob.get("msg") or ("prints %r, prescribed %r" % (ob.get("out"), v and v["out"]))
                chk.fail("%s|expr|%s|%s|%s" % (pid, a["ty"], a["op"], a["sp"]),
                         "%s %s on %d, %d: %s" % (a["ty"], a["op"], progen.case_value(a, "a"), progen.case_value(a, "b"), got), dict(rep, case=a))
            else:
                stats["agree"] += 1
            continue
        if kind == "witness":          # a recorded finding's fixed witness: reported under its own key while it reproduces
            v = ob.get("verdict")
            if not (st == "ran" and v is not None and v["ok"]):
                chk.fail("%s|witness|%s" % (pid, a), "%s: %s" % (a, ob.get("msg") or ("prints %r, prescribed %r" % (ob.get("out"), v and v["out"]))), rep)
            continue
        if st == "void":
            stats["void"] += 1
        elif st in ("crash", "hang"):
            chk.fail("%s|compiler-%s|%s|%s" % (pid, st, ob["site"], ob["msg"][:60]),
                     "a core-language program makes the compiler %s: %s" % (st, ob["msg"]), rep)
        elif st == "rejected":
            chk.fail("%s|rejected|%s" % (pid, ob["msg"]), "a core-language program is rejected: %s" % ob["msgs"][:2], rep)
        elif st == "badrun":
            chk.fail("%s|run|%s" % (pid, ob["halt"]), "the executable ends with %s" % ob["msg"], rep)
        else:
            v = ob["verdict"]
            if v is None:
                raise core.Undecided("no verdict for %s" % ob["name"])
            if v["halt"] == "fuel":
                stats["fuel"] += 1
            elif v["ok"]:
                stats["agree"] += 1
            elif kind == "expr":
                bad = set()
                for k, (g, w) in enumerate(zip(ob["out"], v["out"])):
                    if g != w and lm[k] not in bad:
                        bad.add(lm[k])
                        c = a[lm[k]]
                        chk.fail("%s|expr|%s|%s" % (pid, c["ty"], c["op"]),
                                 "%s %s on %d, %d prints %r, the semantics prescribe %r" %
                                 (c["ty"], c["op"], progen.case_value(c, "a"), progen.case_value(c, "b"), g, w),
                                 dict(rep, case=c, expected=v["out"], got=ob["out"]))
                if len(ob["out"]) != len(v["out"]) or ob["halt"] != v["halt"]:
                    chk.fail("%s|expr|termination" % pid, "the program ends with %s after %d lines, prescribed %s after %d" %
                             (ob["halt"], len(ob["out"]), v["halt"], len(v["out"])), dict(rep, expected=v["out"], got=ob["out"]))
            else:
                pending.append((ob, kind))

    def still_bad(p):
        o = semrun.observe(env, [(p, "r")], target, workers=1)
        semrun.judge(env, o)
        v = o[0].get("verdict")
        return o[0]["status"] == "ran" and v is not None and not v["ok"] and v["halt"] != "fuel"
    for n, (ob, kind) in enumerate(pending):
        small = progen.reduce(ob["prog"], still_bad, budget=40) if n < 3 else ob["prog"]
        o = semrun.observe(env, [(small, ob["name"])], target, workers=1)
        semrun.judge(env, o)
        v = o[0]["verdict"] if o[0]["status"] == "ran" and o[0].get("verdict") else ob["verdict"]
        got, halt = (o[0]["out"], o[0]["halt"]) if o[0]["status"] == "ran" else (ob["out"], ob["halt"])
        k, real, want = semrun.first_diff(got, v["out"], halt, v["halt"])
        key = "%s|behaviour|%s" % (pid, ob["name"] if kind == "corpus" else signature(small))
        chk.fail(key, "line %d of the output is %r, the semantics prescribe %r (%s, reduced)" % (k + 1, real, want, ob["name"]),
                 {"name": ob["name"], "program": progen.render(small), "prog": small, "expected": v["out"], "got": got,
                  "original_program": ob["text"]})
    for ob in obs[:1] + obs[-1:]:
        chk.sample({"name": ob["name"], "source": ob["text"][:700], "printed": ob.get("out", [])[:6]})
    chk.cov.update({
        "programs": len(progs), "agreeing": stats["agree"], "void_constant_overflow": stats["void"],
        "loop_fuel_exhausted_in_spec": stats["fuel"], "boundary_expression_cases": len(ec), "random_programs": n_rand,
        "corpus_programs": len([m for m in meta if m[0] == "corpus"]),
        "states": rex["distinct"], "transitions": rex["states"],
        "evaluations": len(progs), "distinct_nontrivial": stats["agree"],
        "rule": "TLC-enumerated boundary expressions (12 integer types x {+,-,*,/,%%,6 comparisons,neg,a op a,casts to the 11 "
                "other types} x boundary operand pairs, %d per program, operands once routed through opaque calls and once let-bound literals, results also "
                "consumed by a comparison / division before being stored), a fixed corpus of feature programs (strings, "
                "methods, enums and match, recursion, closures, results with catch, nested aggregates) and seeded random "
                "core-language programs (integers of every width, bools, by-value structs incl. parameters, fixed and "
                "dynamic arrays, append, negative and out-of-range indices, references with write-through, "
                "if/while/for/match, calls); each compiled for %s, run, and its recorded output and termination validated "
                "by TLC against FerretSem" % (PER_PROG, target),
    })
    chk.assumptions += ["division by zero, MIN / -1, and arithmetic between two literals (a compile-time constant expression "
                        "with its own overflow rule, see C09 / C10) are not generated"]
    return chk.finish()
