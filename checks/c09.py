"""C09 — behaviour does not depend on what the compiler can evaluate early.

Spec: spec/lang/RewriteCheck.tla over FerretSem.  For every (program, rewrite kind, site) pair the harness
produces the rewritten program (vlib/rewrites.py), compiles and runs both natively and hands both records to
TLC, which decides: `same` (the rewrite is meaning preserving in FerretSem: Run(P') = Run(P)), `treated` (same
acceptance), `agree` (same output and termination) and Preserved = same => treated /\\ agree.
Base programs: seeded random programs, the feature corpus, TLC-enumerated boundary expressions with let-bound
literal operands (where LitToCall turns compile-time operands into run-time ones), and rejected programs (an
ill-typed statement appended) for the 'rejected stays rejected' direction."""
import copy
import json
import random

from vlib import core, corpus, progen, rewrites, sem, semrun
from vlib.env import Env
from checks import c01

KINDS = ("LitToCall", "BindToLocal", "LetToConst", "WrapIfTrue")

# literal (op) literal overflowing its type: a compile-time error for the literal form, wrap-around at run time
# after LitToCall (known finding: the acceptance depends on what is evaluated early)
OVERFLOW_BASES = [("u8", "+", 254, 255), ("i8", "-", -128, 1), ("i32", "*", 2147483647, 2), ("u16", "*", 65535, 65535)]


def overflow_base(t, op, a, b):
    ty = progen.BYNAME[t]
    e = {"k": "bin", "op": op, "l": progen.lit_ast(ty, a), "r": progen.lit_ast(ty, b), "ty": progen.tyj(ty)}
    return {"types": [], "funcs": {}, "main": [{"k": "let", "n": "x", "dty": t, "e": e}, {"k": "print", "e": {"k": "var", "n": "x"}}]}


def ill_typed(prog):
    q = copy.deepcopy(prog)
    q["main"].append({"k": "let", "n": "zz_bad", "dty": "i32", "e": {"k": "bool", "v": True}})
    return q


def run(tier, seed, replay=None):
    chk = core.Check("C09", tier, seed, "translation_validation")
    env = Env()
    env.build_all()
    rnd = random.Random(seed)
    bases = []
    n_rand = 60 if tier == "quick" else 1200
    for i in range(n_rand):
        s = seed * 100000 + i
        p, _ = progen.gen_program(s, size=random.Random(s).choice([6, 10]))
        bases.append((p, "rand:%d" % s, "accepted"))
    for name, p in corpus.programs():
        bases.append((p, "corpus:" + name, "accepted"))
    ec, rex = c01.expr_cases(env, tier, rnd)
    per = 8
    n_expr = 40 if tier == "quick" else 600
    # arithmetic first, every (type, operator) stratum: that is where the compile-time evaluators and the run-time code
    # can disagree (truncating vs flooring division, wrap at the declared width); comparisons and casts fill up
    arith = [c for c in ec if c["op"] in ("+", "-", "*", "/", "%")]
    seen, first, rest = {}, [], []
    for c in arith:
        k = (c["ty"], c["op"], c["a"]["neg"], c["b"]["neg"])
        seen[k] = seen.get(k, 0) + 1
        (first if seen[k] <= 1 else rest).append(c)
    ec9 = first + rest + [c for c in ec if c not in arith]
    for i in range(0, min(len(ec9), n_expr * per), per):
        p, _ = progen.expr_program(ec9[i:i + per], opaque=False)
        bases.append((p, "expr-let:%d" % i, "accepted"))
    for i in range(6 if tier == "quick" else 60):
        s = seed * 100000 + 50000 + i
        p, _ = progen.gen_program(s, size=6)
        bases.append((ill_typed(p), "illtyped:%d" % s, "rejected"))
    for t, op, a, b in OVERFLOW_BASES:
        bases.append((overflow_base(t, op, a, b), "const-overflow:%s%s" % (t, op), "overflow"))

    per_kind = 1 if tier == "quick" else 4
    pairs = []          # (base index, kind, descriptor, variant prog)
    site_count = {k: 0 for k in KINDS}
    for bi, (p, name, cls) in enumerate(bases):
        by_kind = {}
        for kind, d in rewrites.sites(p):
            by_kind.setdefault(kind, []).append(d)
        for kind in KINDS:
            ds = by_kind.get(kind, [])
            site_count[kind] += len(ds)
            if cls == "overflow" and kind != "LitToCall":
                continue
            # distinct site shapes first, then fill up
            rnd.shuffle(ds)
            chosen, seen = [], set()
            for d in ds:
                if d["shape"] not in seen:
                    chosen.append(d)
                    seen.add(d["shape"])
            chosen += [d for d in ds if d not in chosen]
            for n, d in enumerate(chosen[:per_kind + 1]):
                pairs.append((bi, kind, d, rewrites.apply(p, kind, d, tag=n)))
            if kind == "LetToConst" and len(ds) > 1:
                # every never-changed let of the program declared const at once: whole chains of initialisers become
                # compile-time evaluable (a single site leaves the operands of the constant as plain lets)
                q = p
                for d in ds:
                    q = rewrites.apply(q, kind, d)
                pairs.append((bi, kind, {"shape": "all-" + "+".join(sorted({d["shape"] for d in ds}))}, q))
    if replay:
        with open(replay) as f:
            rp = json.load(f)["replay"]
        bases = [(rp["prog"], rp["name"], "accepted")]
        pairs = [(0, rp["kind"], {"shape": rp["shape"]}, rp["prog2"])]

    base_obs = semrun.observe(env, [(p, n) for p, n, _ in bases], "native",
                              solo=[i for i, b in enumerate(bases) if b[2] != "accepted"])
    var_obs = semrun.observe(env, [(q, "%s/%s" % (bases[bi][1], kind)) for bi, kind, d, q in pairs], "native",
                             solo=[i for i, pr in enumerate(pairs) if bases[pr[0]][2] != "accepted"])

    def rec(ob):
        acc = ob["status"] in ("ran", "badrun")
        return acc, (ob["out"] if ob["status"] == "ran" else []), (ob["halt"] if ob["status"] == "ran" else "none")
    cases = []
    for i, ((bi, kind, d, q), vo) in enumerate(zip(pairs, var_obs)):
        bo = base_obs[bi]
        for ob in (bo, vo):
            if ob["status"] in ("crash", "hang"):
                chk.fail("C09|compiler-%s|%s|%s" % (ob["status"], ob["site"], ob["msg"][:50]),
                         "the compiler %s on %s" % (ob["status"], ob["name"]), {"name": ob["name"], "program": ob["text"], "prog": ob["prog"]})
        if bo["status"] in ("crash", "hang") or vo["status"] in ("crash", "hang"):
            continue
        a1, o1, h1 = rec(bo)
        a2, o2, h2 = rec(vo)
        cases.append({"id": i, "prog": bases[bi][0], "prog2": q, "acc": a1, "acc2": a2, "out": o1, "halt": h1, "out2": o2, "halt2": h2})
    verdicts, errors = sem.judge(env, cases, chunk=40, module="RewriteCheck",
                                 fields=["id", "prog", "prog2", "acc", "acc2", "out", "halt", "out2", "halt2"])
    if errors:
        raise core.Undecided("FerretSem could not evaluate %d pairs, e.g. %s" % (len(errors), errors[0][1][:400]))
    stats = {"held": 0, "void_not_preserving_in_spec": 0, "fuel": 0, "both_rejected": 0}
    by_kind = {k: 0 for k in KINDS}
    for c in cases:
        v = verdicts.get(c["id"])
        bi, kind, d, q = pairs[c["id"]]
        name = bases[bi][1]
        if v is None:
            raise core.Undecided("no verdict for pair %s/%s" % (name, kind))
        if v["fuel"]:
            stats["fuel"] += 1
            continue
        if not v["same"]:
            stats["void_not_preserving_in_spec"] += 1
            if bases[bi][2] != "rejected":       # for rejected bases Run is irrelevant
                raise core.Undecided("rewrite %s at %s of %s is not meaning preserving in FerretSem" % (kind, d, name))
        rep = {"name": name, "kind": kind, "shape": d["shape"], "prog": bases[bi][0], "prog2": q,
               "program": base_obs[bi]["text"], "rewritten": var_obs[c["id"]]["text"]}
        if v["holds"] or (bases[bi][2] == "rejected" and v["treated"]):
            stats["held"] += 1
            stats["both_rejected"] += (not c["acc"]) and (not c["acc2"])
            by_kind[kind] += 1
            continue
        if not v["treated"]:
            why = [m for m in (var_obs[c["id"]].get("msgs") or base_obs[bi].get("msgs") or [])][:1]
            cls = "const-overflow" if bases[bi][2] == "overflow" or semrun.CONST_OVERFLOW.search(" ".join(why)) else \
                  "borrow-liveness" if "borrowed" in " ".join(why) else d["shape"]
            chk.fail("C09|accept-differs|%s|%s" % (kind, cls),
                     "%s at a %s site: the original is %s, the rewritten program %s %s" %
                     (kind, d["shape"], "accepted" if c["acc"] else "rejected", "accepted" if c["acc2"] else "rejected", why), rep)
        else:
            k, real, other = semrun.first_diff(c["out2"], c["out"], c["halt2"], c["halt"])
            who = "the original is the prescribed behaviour" if v["ok"] and not v["ok2"] else \
                  "the rewritten program is the prescribed behaviour" if v["ok2"] and not v["ok"] else "neither is the prescribed behaviour"
            chk.fail("C09|output-differs|%s|%s" % (kind, d["shape"]),
                     "%s at a %s site of %s: line %d is %r after the rewrite, %r before (%s)" % (kind, d["shape"], name, k + 1, real, other, who), rep)
    for ob in var_obs[:2]:
        chk.sample({"name": ob["name"], "rewritten": ob["text"][:600]})
    chk.cov.update({
        "base_programs": len(bases), "pairs": len(pairs), "pairs_held": stats["held"], "pairs_both_rejected": stats["both_rejected"],
        "applicable_sites": site_count, "pairs_held_by_kind": by_kind, "void_spec_loop_fuel": stats["fuel"],
        "states": len(cases), "transitions": len(cases), "evaluations": len(bases) + len(pairs), "distinct_nontrivial": stats["held"],
        "rule": "Preserved = (Run(P') = Run(P)) => same acceptance /\\ same output and termination, decided by TLC (RewriteCheck) for "
                "every pair; every base and variant compiled natively and run",
    })
    chk.assumptions += ["literals used as array indices are not rewritten (documented constant-index rule); a `return` is never wrapped "
                        "in `if true` (structural return rule, C05)",
                        "BindToLocal only moves call-free subexpressions of statements that contain no call, outside loop conditions and && / ||"]
    return chk.finish()
