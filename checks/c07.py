"""C07 — references obey aliasing-xor-mutation and never outlive their referent.

Spec: spec/lang/Borrow.tla — loans with forward taint (the property's own formulation of "still used
later"), places a / p.X / p.Y / arr[i], shared / mutable / call-returned / copied references,
temporary borrows in calls, nested blocks and loop bodies (judged twice); three-valued verdict
(legal / illegal / either for the array-element rule the property leaves open); the same run
computes the values so the output of legal programs is prescribed.  TLC explores the abstract loan
state graph and emits one program per transition, with and without an epilogue that uses every
live reference.  Binding, spec -> code: illegal => not accepted; legal => accepted (a rejection
counts only with a borrow-class diagnostic) and the executable prints the prescribed lines."""
import hashlib
import json
import os
import random
import re

from vlib import core, fesrv, tlc
from vlib.env import Env

HEAD = '''import "std/io";
type Pair struct { .X: i32, .Y: i32 };
fn id(x: &i32) -> &i32 { return x; }
fn mutI(r: &'i32) { r = 5; }
fn readI(r: &i32) { io::Println(r); }
fn yes() -> bool { return true; }
fn no() -> bool { return false; }
fn one() -> i32 { return 1; }
'''
# Syntactic contexts for a use of a reference (each executes its body exactly once, decided at run time by
# opaque calls): the loan rules and the prescribed output do not depend on where in a statement tree the use
# is written.  (open, close) around the statement.
USE_CONTEXTS = {
    "ifthen": (["if yes() {"], ["}"]),
    "else": (["if no() {", "} else {"], ["}"]),
    "elseif": (["if no() {", "} else if yes() {"], ["}"]),
    "elseifelse": (["if no() {", "} else if no() {", "} else {"], ["}"]),
    "match": (["match one() {", "    1 => {"], ["    }", "    _ => {", "    }", "}"]),
    "matchdflt": (["match one() {", "    7 => {", "    }", "    _ => {"], ["    }", "}"]),
    "block2": (["{", "    {"], ["    }", "}"]),
}
BORROW_DIAG = re.compile(r"borrow|while it is|reference to local|already bound|cannot access|outlive", re.I)


def render(events, ctx=None, which="last"):
    """ctx: name of a USE_CONTEXTS entry; which: the last use / write-through of a reference, or all of them."""
    out = ["fn main() {", "    let a: i32 = 1;", "    let p: Pair = { .X = 2, .Y = 3 };", "    let arr: [2]i32 = [5, 6];"]
    ind = 1
    nloop = 0
    uses = [i for i, e in enumerate(events) if e["k"] in ("use", "wt")]
    wrapped = set(uses[-1:] if which == "last" else uses) if ctx and ctx != "inif" else set()
    for ei, e in enumerate(events):
        pad = "    " * ind
        k = e["k"]
        if ei in wrapped:
            op, cl = USE_CONTEXTS[ctx]
            deep = max(len(l) - len(l.lstrip()) for l in op) // 4 + 1
            stmt = "io::Println(%s);" % e["r"] if k == "use" else "%s = %d;" % (e["r"], e["v"])
            out += [pad + l for l in op] + [pad + "    " * deep + stmt] + [pad + l for l in cl]
            continue
        if k == "bs":
            out.append("%slet %s: &i32 = &%s;" % (pad, e["r"], e["pl"]))
        elif k == "bm":
            out.append("%slet %s: &'i32 = &'%s;" % (pad, e["r"], e["pl"]))
        elif k == "bc":
            out.append("%slet %s: &i32 = id(&%s);" % (pad, e["r"], e["pl"]))
        elif k == "rb":
            out.append("%slet %s: &i32 = %s;" % (pad, e["r"], e["s"]))
        elif k == "use":
            out.append("%sio::Println(%s);" % (pad, e["r"]))
        elif k == "wt":
            out.append("%s%s = %d;" % (pad, e["r"], e["v"]))
        elif k == "rd":
            out.append("%sio::Println(%s);" % (pad, e["pl"]))
        elif k == "wr":
            out.append("%s%s = %d;" % (pad, e["pl"], e["v"]))
        elif k == "tm":
            out.append("%smutI(&'%s);" % (pad, e["pl"]))
        elif k == "ts":
            out.append("%sreadI(&%s);" % (pad, e["pl"]))
        elif k == "cdef":
            out += [pad + "let f1 := fn() -> i32 {", pad + "    return %s;" % e["pl"], pad + "};"]
        elif k == "ccall":
            out.append(pad + "io::Println(f1());")
        elif k == "open":
            out.append(pad + "{")
            ind += 1
        elif k == "close":
            ind -= 1
            out.append("    " * ind + "}")
        elif k == "loop":
            nloop += 1
            out.append("%slet k%d: i32 = 0;" % (pad, nloop))
            out.append("%swhile k%d < 2 {" % (pad, nloop))
            ind += 1
            out.append("%sk%d = k%d + 1;" % ("    " * ind, nloop, nloop))
        elif k == "endloop":
            ind -= 1
            out.append("    " * ind + "}")
    out.append("}")
    if ctx == "inif" or which == "inif":
        # every declaration and statement of the program inside a branch (nothing lives in the function's first block)
        out = [out[0], "    if yes() {"] + ["    " + l for l in out[1:-1]] + ["    }", "}"]
    return HEAD + "\n".join(out) + "\n"


def render_escape(c):
    """A function returning a reference whose referent is described by (base, path, via)."""
    b, pth, via = c["base"], c["path"], c["via"]
    ty = {"whole": "i32", "field": "Pair", "elem": "[2]i32"}[pth]
    init = {"whole": "7", "field": "{ .X = 7, .Y = 8 } as Pair", "elem": "[7, 8]"}[pth]
    sel = {"whole": "x", "field": "x.X", "elem": "x[0]"}[pth]
    if b == "local":
        params, pre, arg, mpre = "", ["    let x: %s = %s;" % (ty, init)], "", []
    elif b == "valparam":
        params, pre, arg, mpre = "x: %s" % ty, [], "v0", ["    let v0: %s = %s;" % (ty, init)]
    else:
        params, pre, arg, mpre = "x: &%s" % ty, [], "&v0", ["    let v0: %s = %s;" % (ty, init)]
    expr = sel if (b == "refparam" and pth == "whole") else "&" + sel
    if via == "direct":
        body = pre + ["    return %s;" % expr]
    else:
        body = pre + ["    let lr: &i32 = %s;" % expr, "    return lr;"]
    src = [HEAD, "fn f(%s) -> &i32 {" % params] + body + ["}", "fn main() {"] + mpre + \
          ["    let r: &i32 = f(%s);" % arg, "    io::Println(r);", "}"]
    return "\n".join(src) + "\n"


def ev_key(events):
    def one(e):
        k = e["k"]
        if k in ("bs", "bm", "bc"):
            return "%s(%s,%s)" % (k, e["r"], e["pl"])
        if k == "rb":
            return "rb(%s,%s)" % (e["r"], e["s"])
        if k in ("use", "wt"):
            return "%s(%s)" % (k, e["r"])
        if k in ("rd", "wr", "tm", "ts", "cdef"):
            return "%s(%s)" % (k, e["pl"])
        return k
    return ";".join(one(e) for e in events)


def finding_class(events):
    """Spec-level class of a wrongly accepted program: which kinds of loan the tainted use involves."""
    ks = {e["k"] for e in events}
    tags = []
    if "bc" in ks:
        return "call-returned-ref"       # one class (KNOWN_FINDINGS exclusion predicate: any bc event)
    if "cdef" in ks:
        tags.append("closure")
    if "rb" in ks:
        tags.append("ref-copy")
    if "loop" in ks:
        tags.append("loop")
    if "open" in ks:
        tags.append("block")
    if "tm" in ks or "ts" in ks:
        tags.append("temp-borrow")
    return "+".join(tags) or "plain"


def run(tier, seed, replay=None):
    chk = core.Check("C07", tier, seed, "model_checking")
    env = Env()
    env.build_all()
    rnd = random.Random(seed)
    cfgs = ["Gen_Borrow4.cfg", "Gen_BorrowX4.cfg"] if tier == "quick" else ["Gen_Borrow5.cfg", "Gen_BorrowX5.cfg"]
    cases, states, trans = {}, 0, 0
    for cfg in cfgs:
        r = tlc.require_ok(tlc.run(env.tmpdir("tlc"), "Borrow", cfg, ["lang"], workers=16, timeout=3000), cfg)
        if r["violated"]:
            raise core.Undecided("design-level invariant of the judgment violated in " + cfg)
        states += r["distinct"]
        trans += r["states"]
        for c in r["cases"]:
            c["key"] = ev_key(c["events"])
            cases.setdefault(c["key"], c)
    cases = list(cases.values())
    if replay:
        with open(replay) as f:
            rk = json.load(f)["replay"]["events_key"]
        base, _, rest = rk.partition("@")
        cases = [dict(c) for c in cases if c["key"] == base]
        if rest:
            for c in cases:
                c["ctx"], c["which"] = rest.split("/")
                c["key"] = rk
    elif tier == "quick":
        # stratified by spec-level class and verdict, so that every kind of loan gets its share
        strata = {}
        for c in cases:
            strata.setdefault((finding_class(c["events"]), c["verdict"]), []).append(c)
        cases = []
        for k in sorted(strata):
            v = strata[k]
            rnd.shuffle(v)
            cases += v[:350 if k[1] != "either" else 60]
    else:
        rnd.shuffle(cases)
        cases = cases[:90000]
    # the same cases with a use of a reference written inside another syntactic context (rotating over the
    # contexts; every context gets cases of every verdict and spec-level class)
    if not replay:
        ctxs = sorted(USE_CONTEXTS)
        withuse = [c for c in cases if c["verdict"] != "either" and any(e["k"] in ("use", "wt") for e in c["events"])]
        per = {}
        nvar = 0
        for c in [c for c in cases if any(e["k"] == "cdef" for e in c["events"]) and c["verdict"] != "either"]:
            v = dict(c)
            v["ctx"], v["which"] = "inif", "last"
            v["key"] = c["key"] + "@inif/last"
            cases.append(v)
        for c in withuse:
            k = (finding_class(c["events"]), c["verdict"])
            per[k] = per.get(k, 0) + 1
            if tier == "quick" and per[k] > 6 * len(ctxs):
                continue
            v = dict(c)
            v["ctx"] = ctxs[(per[k] - 1) % len(ctxs)]
            v["which"] = "last" if (per[k] // len(ctxs)) % 2 == 0 else "all"
            v["key"] = c["key"] + "@" + v["ctx"] + "/" + v["which"]
            cases.append(v)
            nvar += 1
    pool = fesrv.Pool(env)
    jobs = []
    for c in cases:
        d = env.tmpdir("c07")
        p = os.path.join(d, "m.fer")
        c["_src"] = render(c["events"], c.get("ctx"), c.get("which", "last"))
        with open(p, "w") as f:
            f.write(c["_src"])
        c["_p"] = p
        jobs.append({"entry": p, "skip": True})
    obs = pool.compile_many(jobs)
    cnt = {"legal": 0, "illegal": 0, "either": 0}
    n_void = n_ill_rej = n_leg_acc = 0
    runnable = []
    cand = {}
    for c, o in zip(cases, obs):
        v = c["verdict"]
        cnt[v] += 1
        if v == "illegal":
            if o["cls"] == "ACCEPT":
                cand.setdefault("C07|accepts-illegal|" + finding_class(c["events"]) + ("|in-" + c["ctx"] if c.get("ctx") and finding_class(c["events"]) != "call-returned-ref" else ""), []).append(c)
            else:
                n_ill_rej += 1
        elif v == "legal":
            if o["cls"] == "ACCEPT":
                n_leg_acc += 1
                if c["out"]:
                    runnable.append(c)
            elif o["cls"] == "REJECT":
                if any(BORROW_DIAG.search(e["msg"]) for e in o["errors"]):
                    chk.fail("C07|rejects-legal|" + finding_class(c["events"]),
                             "a program that respects the rules is rejected with a borrow diagnostic (%s): %s"
                             % (o["errors"][0]["msg"][:80], c["key"]),
                             {"events_key": c["key"], "program": c["_src"]})
                else:
                    n_void += 1
            else:
                chk.fail("C07|compiler-" + o["cls"], "compiler %s on %s" % (o["cls"], c["key"]),
                         {"events_key": c["key"], "program": c["_src"]})
    # confirm wrongly accepted programs through the CLI (a few per spec-level class, in parallel)
    todo = [(k, c) for k, cs in sorted(cand.items()) for c in cs[:3]]
    for (k, c), o2 in zip(todo, core.pmap(lambda kc: env.compile(kc[1]["_p"], typecheck_only=True), todo, workers=8)):
        if o2["cls"] == "ACCEPT":
            chk.fail(k, "a program in which a conflicting access happens while the reference is still used later is "
                     "accepted (%d programs of this class): %s" % (len(cand[k]), c["key"]),
                     {"events_key": c["key"], "program": c["_src"]})
    # write-through visibility on legal, accepted programs
    rnd.shuffle(runnable)
    def clo_rank(c):
        # most telling first: a reference taken BEFORE the literal on the captured place, a write AFTER it, and the
        # whole program inside a branch
        ev = c["events"]
        i = next(k for k, e in enumerate(ev) if e["k"] == "cdef")
        pl = ev[i]["pl"]
        before = any(e["k"] in ("bs", "bm") and e["pl"] == pl for e in ev[:i])
        after = any(e["k"] in ("wt", "wr", "tm") for e in ev[i + 1:])
        return -(2 * (before and after) + (c.get("ctx") == "inif") + before)
    clo = sorted([c for c in runnable if any(e["k"] == "cdef" for e in c["events"])], key=clo_rank)
    rest = [c for c in runnable if c not in clo]
    runnable = clo[:120 if tier == "quick" else 2000] + rest[:150 if tier == "quick" else 3000]

    def runit(c):
        exe = c["_p"][:-4] + ".out"
        o = env.compile(c["_p"], out=exe)
        if o["cls"] != "ACCEPT":
            return c, None
        return c, env.run_native(exe)
    n_run = n_run_ok = 0
    for c, r in core.pmap(runit, runnable, workers=12):
        if r is None:
            continue
        n_run += 1
        got = r["out"].split()
        want = [str(x) for x in c["out"]]
        if r["cls"] != "EXIT0" or got != want:
            arrw = any(e["k"] in ("wr", "wt", "tm") and "arr" in str(e.get("pl", "")) for e in c["events"])
            chk.fail("C07|visibility|" + ("arr-element" if arrw else finding_class(c["events"])),
                     "legal program prints %s, the specification prescribes %s (exit %s): %s" % (got, want, r["cls"], c["key"]),
                     {"events_key": c["key"], "program": c["_src"]})
        else:
            n_run_ok += 1
    # last clause: references to locals must not be returned
    re_ = tlc.require_ok(tlc.run(env.tmpdir("tlc"), "RefEscape", "Gen_RefEscape.cfg", ["lang"], workers=1), "RefEscape")
    n_escape = 0
    for c in re_["cases"]:
        d = env.tmpdir("c07e")
        p = os.path.join(d, "m.fer")
        with open(p, "w") as f:
            f.write(render_escape(c))
        o = env.compile(p, typecheck_only=True)
        n_escape += 1
        if c["mustReject"] and o["cls"] == "ACCEPT":
            chk.fail(c["key"], "a function returning a reference to %s of a %s (%s) is accepted"
                     % (c["path"], c["base"], c["via"]), {"events_key": c["key"], "program": render_escape(c)})
        elif not c["mustReject"] and o["cls"] == "REJECT" and any(BORROW_DIAG.search(e["msg"]) for e in o["errors"]):
            chk.fail(c["key"] + "|rejected", "returning a reference into the caller's data is rejected: %s"
                     % o["errors"][0]["msg"][:100], {"events_key": c["key"], "program": render_escape(c)})
    for c in cases[:3]:
        chk.sample({"events": c["key"], "verdict": c["verdict"], "out": c["out"]})
    chk.cov.update({
        "states": states, "transitions": trans, "traces_validated_against_impl": len(cases),
        "programs": len(cases), "by_verdict": cnt, "illegal_rejected": n_ill_rej, "illegal_accepted": sum(len(v) for v in cand.values()), "legal_accepted": n_leg_acc,
        "legal_rejected_for_unrelated_reason": n_void, "executed": n_run, "executed_ok": n_run_ok, "return_reference_cases": n_escape,
        "evaluations": len(cases) + n_run, "distinct_nontrivial": len({c["key"] for c in cases if c["verdict"] != "either"}),
        "rule": "one program per transition of the abstract loan-state graph (event sequences up to length 4/5 over 5 "
                "places and 2 references, plus nested blocks, loop bodies, call-returned references and temporary "
                "borrows), each with and without an epilogue using every live reference; distinct = distinct event "
                "sequences with a definite verdict",
    })
    chk.assumptions += ["conflicts between two different elements of one array are left open (verdict 'either')",
                        "a rejection of a legal program counts only when a diagnostic mentions borrowing"]
    return chk.finish()
