"""C19 — layout of the source text does not change meaning; diagnostics follow the text.

Spec: spec/lang/SourceLayout.tla — trivia as character-class sequences, the position calculus of
source.Position.Advance (Scan), and Shift: where a position of the original text must be after trivia
is inserted in front of a token.  Binding:
  spec -> code: every character-class sequence up to length 6 (ScanGen, enumerated by TLC) is replayed
                into the real Position.Advance and the result validated by TLC (Scan);
  code -> spec: for every (program, token gap, trivia) variant the real front end is run; the verdict
                and the diagnostics (code, message) must equal the original's, and every diagnostic's
                recorded (line, column) is validated by TLC against Shift of its original position;
                for accepted programs a sample of variants is built and run and must print the same."""
import glob
import json
import os
import random
import re
import subprocess

from vlib import core, fesrv, tlc
from vlib.env import Env, REPO, VERIF

TRIVIA = [(" ", "s"), ("   ", "sss"), ("\t", "t"), ("\n", "n"), ("\r\n", "sn"), ("// c\n", "ssssn"), ("/* c */", "sssssss"),
          ("/* a\n b */", "ssssn" + "sssss"), ("\n\n  ", "nnss")]
LEXDRV = os.path.join(VERIF, "harness", "overlay", "lexdrv", "main.go")
EXTRA = [
    'import "std/io";\nfn main() {\n    let x: i32 = "s";\n    let y: str = 5;\n    io::Println(x + y);\n}\n',
    'import "std/io";\nfn f(a: i32) -> i32 {\n    if a == 1 {\n        return 2;\n    }\n}\nfn main() { io::Println(f(1, 2)); }\n',
    'import "std/io";\ntype P struct { .X: i32 };\nfn main() {\n    let p: P = { .X = 1, .Q = 2 };\n    p.Z = 3; undefinedName = 4;\n    let a: [2]i32 = [1, 2, 3];\n}\n',
    'import "std/io";\nfn main() {\n    let a: i32 = 1;\n    let r: &\'i32 = &\'a; a = 2; io::Println(r);\n    const c: i32 = 1; c = 2;\n}\n',
    # syntax errors: statements without their ';' (followed on the same line, on the next line, by the closing brace)
    'import "std/io";\nfn main() {\n    let x: i32 = 1 io::Println(x);\n    let y: i32 = x + 2\n    io::Println(y) }\n',
    'import "std/io";\nfn g(a: i32) -> i32 {\n    return a * 2 }\nfn main() {\n    let v: i32 = g(3) let w: i32 = g(v) io::Println(w);\n}\n',
    # characters the lexer does not know (its own diagnostic), one per line and two on one line
    'import "std/io";\nfn main() {\n    let x: i32 = 1;\n    let y: i32 = 2 $ 3;\n    io::Println(x); ` `\n}\n',
]
LEX_ERRORS_OK = {"extra6.fer"}


def mask(msg):
    return re.sub(r"\d+", "#", msg)


def run(tier, seed, replay=None):
    chk = core.Check("C19", tier, seed, "exploration")
    env = Env()
    env.build_all()
    rnd = random.Random(seed)
    lexdrv = env.build_overlay_driver("lexdrv", LEXDRV)

    # ---- unit level: the scanner against the real Position.Advance
    rs = tlc.require_ok(tlc.run(env.tmpdir("tlc"), "ScanGen", "Gen_Scan.cfg", ["lang"], workers=4), "ScanGen")
    seqs = [c["cs"] for c in rs["cases"]]
    ch = {"s": "x", "t": "\t", "n": "\n"}
    inp = "".join(json.dumps("".join(ch[c] for c in cs)) + "\n" for cs in seqs)
    r = subprocess.run([lexdrv, "advance"], input=inp, capture_output=True, text=True, timeout=300)
    adv = [json.loads(ln) for ln in r.stdout.split("\n") if ln.strip()]
    if len(adv) != len(seqs):
        raise core.Undecided("advance driver returned %d results for %d sequences" % (len(adv), len(seqs)))
    records = [{"k": "scan", "cs": cs, "q": [a[0], a[1]]} for cs, a in zip(seqs, adv)]
    rec_owner = [("scan", "".join(cs)) for cs in seqs]

    # ---- corpus
    corpus = []
    files = sorted(glob.glob(os.path.join(REPO, "smoke_test", "*.fer")) + glob.glob(os.path.join(REPO, "smoke_test", "extra", "*.fer"))
                   + glob.glob(os.path.join(REPO, "examples", "*.fer")))
    cdir = env.tmpdir("c19corpus")
    for i, f in enumerate(files):
        with open(f) as fh:
            corpus.append((os.path.basename(f), fh.read()))
    for i, t in enumerate(EXTRA):
        corpus.append(("extra%d.fer" % i, t))
    paths = []
    for name, text in corpus:
        d = os.path.join(cdir, name.replace(".fer", ""))
        os.makedirs(d, exist_ok=True)
        p = os.path.join(d, "m.fer")
        with open(p, "w") as fh:
            fh.write(text)
        paths.append(p)
    toks = {}
    r = subprocess.run([lexdrv, "tokens"] + paths, capture_output=True, text=True, timeout=300)
    for ln in r.stdout.split("\n"):
        if ln.strip():
            o = json.loads(ln)
            toks[o["file"]] = o
    pool = fesrv.Pool(env)
    base_obs = pool.compile_many([{"entry": p, "skip": True} for p in paths])
    progs = []
    for (name, text), p, o in zip(corpus, paths, base_obs):
        if o["cls"] not in ("ACCEPT", "REJECT") or p not in toks or (toks[p]["lexerrors"] and name not in LEX_ERRORS_OK):
            continue                  # programs the front end crashes on belong to C13
        if "@" in text:
            continue
        progs.append({"name": name, "text": text, "path": p, "obs": o, "tokens": toks[p]["tokens"]})
        # a diagnostic that names a character is about that character: the text at its position is the character
        lines = text.split("\n")
        for e in o["errors"]:
            m = re.search(r"unrecognized character '(.)'", e["msg"])
            if m and e["line"] is not None:
                at = lines[e["line"] - 1][e["col"] - 1:e["col"]] if 0 < e["line"] <= len(lines) else ""
                if at != m.group(1):
                    chk.fail("C19|lexer-diagnostic-position", "%s: %r is reported at %d:%d where the text has %r"
                             % (name, e["msg"], e["line"], e["col"], at), {"program": name, "gap": 0, "trivia": 0})
    if len(progs) < 10:
        raise core.Undecided("corpus too small")

    # ---- variants
    variants = []
    for pr in progs:
        tk = pr["tokens"]
        for gi, t in enumerate(tk):
            for ti, (triv, cls) in enumerate(TRIVIA):
                variants.append((pr, gi, ti))
    if replay:
        with open(replay) as f:
            rp = json.load(f)["replay"]
        variants = [v for v in variants if v[0]["name"] == rp["program"] and v[1] == rp["gap"] and v[2] == rp["trivia"]]
    else:
        rnd.shuffle(variants)
        if tier == "quick":
            # one variant per syntactic context: (two preceding token kinds, following token kind) for comment
            # trivia, (preceding, following) for blank trivia
            seen, keep = set(), []
            for pr, gi, ti in variants:
                tk = pr["tokens"]
                k1 = tk[gi - 1][3] if gi >= 1 else "^"
                k2 = tk[gi - 2][3] if gi >= 2 else "^"
                comment = "/" in TRIVIA[ti][0]
                ctx = (k2, k1, tk[gi][3], ti) if comment else (k1, tk[gi][3], ti)
                if ctx not in seen or pr["name"].startswith("extra"):     # the ill-formed programs: every gap
                    seen.add(ctx)
                    keep.append((pr, gi, ti))
            variants = keep
        else:
            variants = variants[:40000]
    jobs = []
    for n, (pr, gi, ti) in enumerate(variants):
        off = pr["tokens"][gi][0]
        data = pr["text"].encode("utf-8")
        new = data[:off] + TRIVIA[ti][0].encode() + data[off:]
        d = env.tmpdir("c19")
        p = os.path.join(d, "m.fer")
        with open(p, "wb") as f:
            f.write(new)
        jobs.append({"entry": p, "skip": True})
    obs = pool.compile_many(jobs)
    n_same = n_diag = 0
    runnable = []
    for (pr, gi, ti), job, o in zip(variants, jobs, obs):
        b = pr["obs"]
        tok = pr["tokens"][gi]
        key = "C19|%s|%s" % (tok[3].replace(" ", "_")[:20], json.dumps(TRIVIA[ti][0])[1:-1])
        rep = {"program": pr["name"], "gap": gi, "trivia": ti, "before_token": tok[3], "at": [tok[1], tok[2]]}
        if o["cls"] != b["cls"]:
            chk.fail(key + "|verdict", "inserting %r before token %d (%s at %d:%d) of %s changes the verdict %s -> %s: %s"
                     % (TRIVIA[ti][0], gi, tok[3], tok[1], tok[2], pr["name"], b["cls"], o["cls"],
                        [e["msg"][:60] for e in o["errors"]][:2]), rep)
            continue
        be, oe = b["errors"], o["errors"]
        # the same diagnostics as a multiset (their relative order follows the lines, which the trivia may split)
        kb = sorted((e["code"], mask(e["msg"])) for e in be)
        ko = sorted((e["code"], mask(e["msg"])) for e in oe)
        if kb != ko:
            chk.fail(key + "|diagnostics", "inserting %r before token %d (%s) of %s changes the diagnostics: %s -> %s"
                     % (TRIVIA[ti][0], gi, tok[3], pr["name"], [e["msg"][:50] for e in be][:4], [e["msg"][:50] for e in oe][:4]), rep)
            continue
        n_same += 1
        pool_o = {}
        for e1 in oe:
            pool_o.setdefault((e1["code"], mask(e1["msg"])), []).append(e1)
        for e0 in sorted(be, key=lambda e: (e["line"] or 0, e["col"] or 0)):
            cands = pool_o[(e0["code"], mask(e0["msg"]))]
            cands.sort(key=lambda e: (e["line"] or 0, e["col"] or 0))
            e1 = cands.pop(0)                     # k-th occurrence in text order on both sides
            if e0["line"] is None or e1["line"] is None:
                continue
            records.append({"k": "diag", "p": [e0["line"], e0["col"]], "g": [tok[1], tok[2]], "t": list(TRIVIA[ti][1]),
                            "q": [e1["line"], e1["col"]]})
            rec_owner.append((key, rep, e0["msg"][:60]))
            n_diag += 1
        if b["cls"] == "ACCEPT" and "io::Print" in pr["text"]:
            runnable.append((pr, gi, ti, job["entry"]))

    # ---- TLC validates the recorded positions (and the scanner replay)
    def validate(idx):
        wd = env.tmpdir("c19t")
        with open(os.path.join(wd, "trace.ndjson"), "w") as f:
            for i in idx:
                f.write(json.dumps(records[i]) + "\n")
        rr = tlc.run(wd, "SourceLayout", "Trace_SourceLayout.cfg", ["lang"], workers=1, timeout=1800)
        ok = rr["finished"] and not rr["error"]
        if not ok and "TraceAccepted" not in rr["out"]:
            raise tlc.TLCError("SourceLayout validation did not run:\n" + tlc.tail(rr["out"], 30))
        return ok, (rr["depth"] or 1) - 1
    chunks = [list(range(i, len(records), 8)) for i in range(8)]
    n_valid = 0
    for idx, (ok, acc) in zip(chunks, core.pmap(validate, chunks, workers=8)):
        guard = 0
        while not ok and guard < 6:
            guard += 1
            i = idx[acc]
            own = rec_owner[i]
            if own[0] == "scan":
                chk.fail("C19|advance|" + own[1], "Position.Advance on %r gives %s, the position calculus gives another "
                         "position" % (own[1], records[i]["q"]), {"sequence": own[1]})
            else:
                chk.fail(own[0] + "|position", "diagnostic '%s' was at %s, after inserting the trivia before %s it is "
                         "reported at %s: it did not move exactly with the text" % (own[2], records[i]["p"], records[i]["g"],
                                                                                   records[i]["q"]), own[1])
            n_valid += acc
            idx = idx[acc + 1:]
            if not idx:
                break
            ok, acc = validate(idx)
        if ok:
            n_valid += len(idx)

    # ---- output of accepted programs under re-layout (sample)
    rnd.shuffle(runnable)
    runnable = runnable[:40 if tier == "quick" else 600]
    base_out = {}

    def build_run(path):
        exe = path[:-4] + ".out"
        o = env.compile(path, out=exe)
        if o["cls"] != "ACCEPT":
            return None
        return env.run_native(exe)
    for pr in {id(v[0]): v[0] for v in runnable}.values():
        r1 = build_run(pr["path"])
        # only programs whose own behaviour is a function of their text take part: one shipped program prints random
        # numbers (seeded by the clock), another one reads input. Such programs are recognised by what they import or
        # call, and as a second line of defence the unmodified program is run twice
        with open(pr["path"]) as fh:
            src_text = fh.read()
        again = build_run(pr["path"])
        if re.search(r'import\s+"random"|\brandom::|io::Read|\btime::', src_text) or \
                (r1 is not None and again is not None and (r1["cls"], r1["out"]) != (again["cls"], again["out"])):
            r1 = None
            chk.cov["programs_with_nondeterministic_output_skipped"] = chk.cov.get("programs_with_nondeterministic_output_skipped", 0) + 1
        base_out[pr["name"]] = r1
    n_run = 0
    for (pr, gi, ti, path), r2 in zip(runnable, core.pmap(lambda v: build_run(v[3]), runnable, workers=12)):
        r1 = base_out.get(pr["name"])
        if r1 is None or r2 is None:
            continue
        n_run += 1
        if (r1["cls"], r1["out"]) != (r2["cls"], r2["out"]):
            tok = pr["tokens"][gi]
            chk.fail("C19|%s|%s|output" % (tok[3].replace(" ", "_")[:20], json.dumps(TRIVIA[ti][0])[1:-1]),
                     "inserting %r before token %d of %s changes what the program prints" % (TRIVIA[ti][0], gi, pr["name"]),
                     {"program": pr["name"], "gap": gi, "trivia": ti})
    chk.sample({"program": variants[0][0]["name"], "gap": variants[0][1], "trivia": TRIVIA[variants[0][2]][0]})
    chk.sample({"scan_sequences": len(seqs)})
    chk.cov.update({
        "evaluations": len(variants) + len(seqs), "distinct_nontrivial": len({(v[0]["name"], v[1], v[2]) for v in variants}),
        "corpus_programs": len(progs), "accepted_in_corpus": sum(1 for p in progs if p["obs"]["cls"] == "ACCEPT"),
        "variants": len(variants), "variants_same_verdict_and_diagnostics": n_same,
        "diagnostic_positions_validated": n_diag, "records_validated_by_tlc": n_valid,
        "scanner_sequences_replayed": len(seqs), "variants_executed": n_run,
        "rule": "corpus of shipped smoke/example programs and 4 multi-error programs (accepted and rejected) x every "
                "token gap x 9 trivia kinds (blank, blanks, tab, newline, CRLF, line comment, block comment, multi-line "
                "block comment, blank lines); quick: one variant per syntactic context (kinds of the two preceding and the following token for comments, of the adjacent tokens for blanks); all 1093 character-class sequences up to "
                "length 6 for the scanner",
    })
    chk.assumptions += ["diagnostic messages are compared with digits masked (some messages quote line numbers)",
                        "a diagnostic located exactly at the insertion point may stay or move (end of previous token vs "
                        "start of next token)", "trivia is inserted immediately before a token, after existing whitespace"]
    return chk.finish()
