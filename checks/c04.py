"""C04 — fixed-size array accesses are in bounds and hit the indexed element.
Spec: spec/lang/IndexScenario.tla (Kind = "fixed"). See vlib/indexchk.py for the binding."""
from vlib import indexchk


def run(tier, seed, replay=None):
    return indexchk.run_check("C04", tier, seed, replay, ["fixed"], strict_accept=False)
