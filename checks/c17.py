"""C17 — runtime maps and dynamic arrays behave as abstract maps and lists, memory-safely.

Spec: spec/rt/RtColl.tla (abstract partial function / sequence with replies) and RtCollTrace.tla.
spec -> code: TLC enumerates every transition of the small abstract state graph (3 keys x 2 values;
arrays up to length 3 with out-of-range indices) and simulates long histories over 56 keys / 40
elements that cross the 12/24/48-entry rehash thresholds and the 4/8/16/32 capacity doublings.
Each history is replayed, for every key flavour (i32 sequential, i32 scrambled, i64, string, byte
blob) and both element sizes, into the real C runtime built from the working tree with
-fsanitize=address,undefined.
code -> spec: the driver logs every reply plus the full projected state after every call; TLC
validates the log against the specification (reply and state must be what the action prescribes)."""
import glob
import hashlib
import json
import os
import subprocess

from vlib import core, tlc
from vlib.env import Env, REPO, VERIF

FLAVOURS = ["i32seq", "i32", "i64", "str", "bytes"]


def build_driver(env):
    out = os.path.join(env.root, "rt_driver")
    rt = os.path.join(REPO, "runtime")
    srcs = [os.path.join(VERIF, "harness", "c", "rt_driver.c")] + \
        [os.path.join(rt, "core", f) for f in ("map.c", "array.c", "optional.c", "string_runtime.c", "alloc.c")] + \
        [os.path.join(rt, "libs", f) for f in ("len.c", "append.c")]
    srcs = [s for s in srcs if os.path.exists(s)]
    cmd = ["clang", "-std=gnu99", "-g", "-O1", "-w", "-fsanitize=address,undefined", "-fno-sanitize-recover=all",
           "-fno-omit-frame-pointer", "-I", os.path.join(rt, "core"), "-I", os.path.join(rt, "libs"),
           "-o", out] + srcs + ["-lm"]
    r = subprocess.run(cmd, capture_output=True, text=True)
    if r.returncode != 0:
        raise core.Undecided("runtime driver does not build:\n" + r.stderr[-3000:])
    return out


def to_lines(h, flavour, nkeys, big):
    ls = ["reset %s %d %d" % (flavour, nkeys, big)]
    for o in h:
        op = o["op"]
        if op in ("new", "size", "iter", "anew", "alen"):
            ls.append(op)
        elif op == "frompairs":
            ls.append("frompairs %d %s" % (len(o["pairs"]), " ".join("%d %d" % (p[0], p[1]) for p in o["pairs"])))
        elif op == "set":
            ls.append("set %d %d" % (o["k"], o["v"]))
        elif op in ("get", "has"):
            ls.append("%s %d" % (op, o["k"]))
        elif op == "append":
            ls.append("append %d" % o["v"])
        elif op == "aget":
            ls.append("aget %d" % o["i"])
        elif op == "aset":
            ls.append("aset %d %d" % (o["i"], o["v"]))
    return ls


def run(tier, seed, replay=None):
    chk = core.Check("C17", tier, seed, "model_checking")
    env = Env()
    drv = build_driver(env)

    # 1. histories from TLC
    gens = [("MC_RtMapSmall.cfg", {}, "map", 3), ("MC_RtArrSmall.cfg", {}, "arr", 0),
            ("Sim_RtMap.cfg", dict(simulate="num=%d" % (6 if tier == "quick" else 120), depth=201, seed=seed,
                                   workers=4), "map", 56),
            ("Sim_RtArr.cfg", dict(simulate="num=%d" % (4 if tier == "quick" else 60), depth=61, seed=seed,
                                   workers=4), "arr", 0)]
    hists = []
    states = trans = 0
    # design level: the chained hash table of map.c (RtMapImpl: resize at 3/4, relinking, pre-sizing of literals)
    # refines the abstract map for every hash function over the small universe
    ri = tlc.run(env.tmpdir("tlc"), "RtMapImpl", "MC_RtMapImplSmall.cfg" if tier == "quick" else "MC_RtMapImpl.cfg",
                 ["rt"], workers=16, timeout=3000)
    if ri["violated"] or not ri["finished"]:
        raise core.Undecided("RtMapImpl does not refine the abstract map at the design level:\n" + tlc.tail(ri["out"], 25))
    states += ri["distinct"]
    trans += ri["states"]
    chk.cov["impl_refinement_states"] = ri["distinct"]
    for cfg, kw, kind, nkeys in gens:
        a = dict(workers=8)
        a.update(kw)
        r = tlc.require_ok(tlc.run(env.tmpdir("tlc"), "RtColl", cfg, ["rt"], timeout=1800, **a), cfg)
        if not kw:
            states += r["distinct"]
            trans += r["states"]
        seen = set()
        for c in r["cases"]:
            h = c["h"]
            if kw:                                  # simulation: siblings share all but the last op
                key = hashlib.sha1(json.dumps(h[:-1]).encode()).hexdigest()
                if key in seen:
                    continue
                seen.add(key)
            hists.append((cfg, kind, nkeys, h))
    if replay:
        with open(replay) as f:
            rp = json.load(f)["replay"]
        hists = [(rp["cfg"], rp["kind"], rp["nkeys"], rp["history"])]
        flav_sel = [rp["flavour"]]
    else:
        flav_sel = None
    if not hists:
        raise core.Undecided("no histories")

    # 2. replay into the real runtime: one driver process per (flavour, chunk of histories)
    jobs = []
    for cfg, kind, nkeys, h in hists:
        if kind == "map":
            small = cfg.startswith("MC_")
            fl = flav_sel or (FLAVOURS if not small else ["i32seq", "str", "bytes"])
            if small and tier == "quick" and not flav_sel:
                fl = ["i32seq", "str"]
            for f in fl:
                jobs.append((cfg, kind, nkeys, h, f, 0))
        else:
            for big in ((0, 1) if not flav_sel else (int(flav_sel[0] == "big"),)):
                jobs.append((cfg, kind, nkeys, h, "big" if big else "small", big))
    chunks = [jobs[i::32] for i in range(32)]
    chunks = [c for c in chunks if c]

    def exec_chunk(chunk):
        text = []
        for cfg, kind, nkeys, h, f, big in chunk:
            text += to_lines(h, f if kind == "map" else "i32seq", nkeys, big)
        e = dict(os.environ)
        e["ASAN_OPTIONS"] = "detect_leaks=1:abort_on_error=0:exitcode=77"
        e["UBSAN_OPTIONS"] = "halt_on_error=1:exitcode=78:print_stacktrace=1"
        try:
            r = subprocess.run([drv], input="\n".join(text) + "\n", capture_output=True, text=True, env=e,
                               timeout=600)
            return chunk, r.returncode, r.stdout, r.stderr
        except subprocess.TimeoutExpired as ex:
            return chunk, -999, ex.stdout or "", "timeout"
    outs = core.pmap(exec_chunk, chunks, workers=16)

    # split the logs back into per-history traces
    traces, owners = [], []
    for chunk, rc, so, se in outs:
        recs = [ln for ln in so.split("\n") if ln.strip()]
        per, cur = [], None
        for ln in recs:
            if ln.startswith('{"op":"reset"'):
                cur = [ln]
                per.append(cur)
            elif cur is not None:
                cur.append(ln)
        if rc != 0:
            # memory-safety clause (or a crash): find the history at which the driver stopped
            idx = max(0, len(per) - 1)
            cfg, kind, nkeys, h, f, big = chunk[min(idx, len(chunk) - 1)]
            what = "sanitizer report" if rc in (77, 78) else ("timeout" if rc == -999 else "driver died (rc %s)" % rc)
            chk.fail("C17|memsafety|%s|%s" % (kind, f),
                     "%s while replaying a history into the runtime: %s" % (what, se.strip().split("\n")[0:6]),
                     {"cfg": cfg, "kind": kind, "nkeys": nkeys, "flavour": f, "history": h, "stderr": se[-3000:]})
        for j, t in enumerate(per):
            if j < len(chunk):
                traces.append(t)
                owners.append(chunk[j])

    # 3. code -> spec: TLC validates all logs
    n_ok, fails, st = validate(env, traces)
    for i, acc in fails:
        cfg, kind, nkeys, h, f, big = owners[i]
        nxt = traces[i][acc] if acc < len(traces[i]) else "(end)"
        chk.fail("C17|%s|%s|%s" % (kind, f, (json.loads(nxt)["op"] if nxt != "(end)" else "end")),
                 "the runtime's answer is not the abstract %s's: first %d calls accepted, then %s"
                 % ("map" if kind == "map" else "list", acc, nxt[:400]),
                 {"cfg": cfg, "kind": kind, "nkeys": nkeys, "flavour": f, "history": h[:acc + 1]})
    for cfg, kind, nkeys, h, f, big in jobs[:3] + jobs[-2:]:
        chk.sample({"kind": kind, "flavour": f, "ops": len(h), "first_ops": h[:6]})
    nontriv = len({hashlib.sha1(json.dumps(h).encode()).hexdigest() for _, _, _, h in hists})
    chk.cov.update({
        "states": states, "transitions": trans, "traces_validated_against_impl": n_ok,
        "histories": len(hists), "replays": len(jobs), "calls_logged": sum(len(t) - 1 for t in traces),
        "evaluations": len(jobs), "distinct_nontrivial": nontriv,
        "rule": "every transition of the abstract state graph (3 keys x 2 values; lists <= 3 with indices -2..len+2) "
                "as one history + simulated 200-call map / 60-call list histories over 56 keys / 40 elements; "
                "distinct = distinct operation sequences; each replayed per key flavour / element size",
        "sanitizers": "clang -fsanitize=address,undefined, leak detection on",
    })
    chk.assumptions += ["the driver's key concretisation (harness/c/rt_driver.c) is injective",
                        "ASan/UBSan observe the memory-safety clause; the spec supplies the histories that cross "
                        "every resize threshold"]
    return chk.finish()


def validate(env, traces):
    """One TLC run over all logs; on rejection locate failing logs (bounded)."""
    def runb(idx):
        wd = env.tmpdir("rtt")
        with open(os.path.join(wd, "trace.ndjson"), "w") as f:
            for i in idx:
                f.write("\n".join(traces[i]) + "\n")
        r = tlc.run(wd, "RtCollTrace", "Trace_RtColl.cfg", ["rt"], workers=1, timeout=3000, heap="12g")
        ok = r["finished"] and not r["error"]
        if not ok and "TraceAccepted" not in r["out"] and "is violated" not in r["out"]:
            raise tlc.TLCError("trace validation did not run:\n" + tlc.tail(r["out"], 40))
        import shutil
        shutil.rmtree(wd, ignore_errors=True)
        return ok, (r["depth"] or 1) - 1
    n = len(traces)
    if n == 0:
        return 0, [], {}
    groups = [list(range(i, n, 16)) for i in range(16)]
    groups = [g for g in groups if g]
    res = core.pmap(runb, groups, workers=8)
    bad_groups = [g for g, (ok, _) in zip(groups, res) if not ok]
    fails = []
    for g in bad_groups[:4]:
        # the accepted prefix length tells which log of the concatenation was rejected
        ok, acc = runb(g)
        tot = 0
        for i in g:
            if acc < tot + len(traces[i]):
                fails.append((i, acc - tot))
                break
            tot += len(traces[i])
    bad = max(len(fails), len(bad_groups))
    return n - bad, fails, {}
