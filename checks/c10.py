"""C10 — integer literals are range-checked exactly and keep their value.

Spec: spec/lang/Literals.tla over spec/lib/BigNum.tla: LitValue (sign, 0x/0o/0b, '_'), InRange for
the 12 integer types, an enumerator that renders boundary values (type min/max +-2, -1, 0, 1 and
2^k +- 1 for k up to the width, both signs) in 4 bases with 3 separator patterns, and the invariant
LitValue(Text(v)) = v on every case.  Binding, spec -> code: each literal is compiled alone in an
initialiser / argument / return position (ACCEPT <=> InRange); accepted literals are then compiled
natively in batches and the running program must print exactly the decimal expansion of LitValue."""
import json
import os
import random

from vlib import core, fesrv, tlc
from vlib.env import Env

POS = ["init", "arg", "ret"]
RANGE_DIAG = ("out of range", "overflow", "does not fit", "too large", "too small", "exceeds", "cannot fit",
              "cannot use", "cannot be represented", "not representable", "invalid")


def prog_single(ty, text, pos):
    if pos == "init":
        body = "fn main() {\n    let x: %s = %s;\n    io::Println(x);\n}\n" % (ty, text)
    elif pos == "arg":
        body = "fn show(x: %s) {\n    io::Println(x);\n}\nfn main() {\n    show(%s);\n}\n" % (ty, text)
    else:
        body = "fn get() -> %s {\n    return %s;\n}\nfn main() {\n    io::Println(get());\n}\n" % (ty, text)
    return 'import "std/io";\n' + body


def prog_batch(ty, items):
    """items: list of (text, pos). One program printing every literal's value in order."""
    top, main = ['import "std/io";', "fn show(x: %s) {\n    io::Println(x);\n}" % ty], ["fn main() {"]
    for i, (text, pos) in enumerate(items):
        if pos == "init":
            main += ["    let x%d: %s = %s;" % (i, ty, text), "    io::Println(x%d);" % i]
        elif pos == "arg":
            main += ["    show(%s);" % text]
        else:
            top += ["fn get%d() -> %s {\n    return %s;\n}" % (i, ty, text)]
            main += ["    io::Println(get%d());" % i]
    main += ["}"]
    return "\n".join(top + main) + "\n"


def run(tier, seed, replay=None):
    chk = core.Check("C10", tier, seed, "exploration")
    env = Env()
    env.build_all()
    rnd = random.Random(seed)
    res = tlc.require_ok(tlc.run(env.tmpdir("tlc"), "Literals", "Gen_Literals.cfg", ["lang", "lib"], workers=16,
                                 timeout=1800), "Literals")
    if res["violated"]:
        raise core.Undecided("Literals: LitValue(Text(v)) = v violated on the design")
    cases = []
    for i, c in enumerate(res["cases"]):
        c["lit"] = "".join(c["text"])
        c["expect"] = ("-" if c["neg"] else "") + "".join(str(d) for d in c["dec"])
        poss = POS if tier == "thorough" else [POS[(i + seed) % 3]]
        for p in poss:
            d = dict(c)
            d["pos"] = p
            d["key"] = "C10|%s|%s|%s" % (c["ty"], c["lit"], p)
            cases.append(d)
    if replay:
        with open(replay) as f:
            rk = json.load(f)["key"]
        cases = [c for c in cases if c["key"] == rk] or [c for c in cases if c["key"].rsplit("|", 1)[0] == rk.rsplit("|", 1)[0]]
    pool = fesrv.Pool(env)
    jobs = []
    for c in cases:
        d = env.tmpdir("c10")
        p = os.path.join(d, "m.fer")
        with open(p, "w") as f:
            f.write(prog_single(c["ty"], c["lit"], c["pos"]))
        c["_p"] = p
        jobs.append({"entry": p, "skip": True})
    obs = pool.compile_many(jobs)
    n_acc = n_rej = 0
    accepted = {}
    susp = []
    for c, o in zip(cases, obs):
        if c["inRange"]:
            if o["cls"] == "ACCEPT":
                n_acc += 1
                accepted.setdefault(c["ty"], []).append(c)
            elif o["cls"] == "REJECT":
                susp.append((c, "in-range literal rejected: %s" % [e["msg"][:80] for e in o["errors"]][:2]))
            else:
                susp.append((c, "compiler %s" % o["cls"]))
        else:
            if o["cls"] == "ACCEPT":
                susp.append((c, "out-of-range literal accepted"))
            else:
                n_rej += 1
    # confirm through the CLI
    conf = core.pmap(lambda cw: env.compile(cw[0]["_p"], typecheck_only=True), susp[:200], workers=8)
    for (c, what), o2 in zip(susp[:200], conf):
        still = (c["inRange"] and o2["cls"] != "ACCEPT") or ((not c["inRange"]) and o2["cls"] == "ACCEPT")
        if still:
            chk.fail(c["key"], "%s %s = %s (value %s): %s" % (c["pos"], c["ty"], c["lit"], c["expect"], what),
                     {"case": {k: v for k, v in c.items() if k not in ("_p", "text")},
                      "program": prog_single(c["ty"], c["lit"], c["pos"])})
    # value clause: batches of accepted literals, compiled natively and run
    batches = []
    for ty, cs in accepted.items():
        rnd.shuffle(cs)
        if tier == "quick":
            # stratified: every distinct (value, base, sign spelling) once, the separator pattern seed-chosen
            seen, keep = set(), []
            for c in cs:
                k = (c["expect"], c["base"], c["sgn"])
                if k not in seen:
                    seen.add(k)
                    keep.append(c)
            cs = keep
        for i in range(0, len(cs), 40):
            batches.append((ty, cs[i:i + 40]))

    def runb(b):
        ty, cs = b
        d = env.tmpdir("c10b")
        p = os.path.join(d, "m.fer")
        with open(p, "w") as f:
            f.write(prog_batch(ty, [(c["lit"], c["pos"]) for c in cs]))
        exe = os.path.join(d, "m.out")
        o = env.compile(p, out=exe)
        if o["cls"] != "ACCEPT":
            return b, o, None
        return b, o, env.run_native(exe)
    n_val = n_val_ok = n_batch_void = 0
    for (ty, cs), o, r in core.pmap(runb, batches, workers=12):
        if r is None:
            n_batch_void += 1
            continue
        got = r["out"].split("\n")
        for i, c in enumerate(cs):
            n_val += 1
            g = got[i].strip() if i < len(got) else "<missing>"
            if g != c["expect"]:
                chk.fail(c["key"] + "|value", "%s literal %s in %s position is observed as %s, its value is %s"
                         % (c["ty"], c["lit"], c["pos"], g, c["expect"]),
                         {"case": {k: v for k, v in c.items() if k not in ("_p", "text")},
                          "program": prog_single(c["ty"], c["lit"], c["pos"])})
            else:
                n_val_ok += 1
    for c in cases[:2] + cases[-2:]:
        chk.sample({"ty": c["ty"], "literal": c["lit"], "pos": c["pos"], "inRange": c["inRange"], "value": c["expect"]})
    chk.cov.update({
        "evaluations": len(cases) + n_val, "distinct_nontrivial": len({(c["ty"], c["lit"]) for c in cases}),
        "states": res["distinct"], "transitions": res["states"],
        "literals": len(cases), "accepted_in_range": n_acc, "rejected_out_of_range": n_rej,
        "values_observed": n_val, "values_correct": n_val_ok, "batches_not_built": n_batch_void,
        "exhaustive": True,
        "rule": "12 types x (type boundaries +-2, -1, 0, 1, 2^k +- 1 both signs for k in {7,8,15,16,31,32,63,64,127,128,"
                "255,256} up to the width; for types of 64 bits and more also the round constants n*2^k, n in {5,10,15}, "
                "k in {64, w/2, w/2+4, w-8, w-4}) x 4 bases x 3 separator patterns, negative values also with the minus "
                "sign written apart ('- 5'; 10056 literals) x positions {initialiser, "
                "argument, return} (quick: one rotating position; every value x base x sign spelling observed once per type); distinct = distinct "
                "(type, literal text)",
    })
    chk.assumptions += ["decimal printing of the runtime (io::Println) is the observation of 'the running program observes'",
                        "forms whose value Ferret does not define (leading-zero decimals, '-0') are not generated"]
    return chk.finish()
