"""C13 — the compiler is total: it never crashes or hangs and reports failure faithfully.

Spec: spec/session/CompileSession.tla (the observable protocol of one run, validated step by step on
the hook trace of every run plus the outside observation) and InputGen.tla (the input spaces as TLA+
state spaces: token mutations, short byte-class strings, small project layouts).
Binding, code -> spec: each input is compiled by the real compiler (through the in-process server;
every crash / hang / inconsistent outcome is re-run alone through the CLI), its trace + observation
is validated by TLC.  A crash is keyed by the first frame of the Go panic inside the repository."""
import glob
import json
import os
import random
import re
import subprocess

from vlib import core, fesrv, tlc
from vlib.env import Env, REPO, VERIF, strip_ansi

LEXDRV = os.path.join(VERIF, "harness", "overlay", "lexdrv", "main.go")
CH = {"a": b"a", "1": b"1", " ": b" ", "nl": b"\n", "\"": b"\"", "'": b"'", "/": b"/", "*": b"*", "{": b"{", "@": b"@",
      "hi": b"\xc3\x28", "-": b"-", ".": b".", "0x": b"0x", "bs": b"\\", "tab": b"\t", "cr": b"\r"}
INS = {"bs": b"\\", "bsnl": b"\"\\\n"}          # inserted tokens that are not their own spelling
FRAME = re.compile(r"((?:/[\w.\-]+)+/internal/[\w/.\-]+\.go|main\.go):(\d+)")
KEEP = {"Start", "PhaseBegin", "Diag", "ErrorGate", "Artifact", "Result"}


def panic_site(text):
    """First frame inside the repository below the panic header."""
    seen_panic = False
    for ln in text.split("\n"):
        if ln.startswith("panic:") or "panic(" in ln or "[signal" in ln or "fatal error:" in ln:
            seen_panic = True
        if seen_panic:
            m = re.search(r"/(internal/[\w/.\-]+\.go):(\d+)", ln)
            if m and "verifhook" not in m.group(1) and "runtime/" not in ln:
                return "%s:%s" % (m.group(1), m.group(2))
    return "unknown"


def mutate(text, toks, c):
    """Apply an abstract token mutation to a program; None if the position does not exist."""
    i = c["i"] - 1
    real = [t for t in toks if t[3] != "end_of_file"]
    if i >= len(real):
        return None
    data = text.encode()
    s, ln = real[i][0], real[i][4]
    if c["op"] == "delete":
        return data[:s] + data[s + ln:]
    if c["op"] == "dup":
        return data[:s + ln] + b" " + data[s:s + ln] + data[s + ln:]
    if c["op"] == "swap":
        if i + 1 >= len(real):
            return None
        s2, l2 = real[i + 1][0], real[i + 1][4]
        return data[:s] + data[s2:s2 + l2] + data[s + ln:s2] + data[s:s + ln] + data[s2 + l2:]
    if c["op"] == "truncate":
        return data[:s]
    if c["op"] == "insert":
        return data[:s] + INS.get(c["t"], c["t"].encode()) + b" " + data[s:]
    return None


def import_lines(kind, slot):
    """Returns (import statement lines, extra files {rel: text}, trailing code lines)."""
    n = "m%d" % slot
    ok_mod = "fn F%d() -> i32 { return %d; }\n" % (slot, slot)
    if kind == "none":
        return [], {}, []
    if kind == "ok":
        return ['import "p/%s";' % n], {n + ".fer": ok_mod}, []
    if kind == "missing":
        return ['import "p/missing%d";' % slot], {}, []
    if kind == "self":
        return ['import "p/main";'], {}, []
    if kind == "mutual":
        return ['import "p/%s";' % n], {n + ".fer": 'import "p/main";\n' + ok_mod}, []
    if kind == "syntaxerr":
        return ['import "p/%s";' % n], {n + ".fer": "fn F( { let = ;\n"}, []
    if kind == "emptyfile":
        return ['import "p/%s";' % n], {n + ".fer": ""}, []
    if kind == "empty_path":
        return ['import "";'], {}, []
    if kind == "dotdot":
        return ['import "../p/%s";' % n], {n + ".fer": ok_mod}, []
    if kind == "absolute":
        return ['import "/etc/passwd";'], {}, []
    if kind == "remote":
        return ['import "github.com/nobody/nothing";'], {}, []
    if kind == "dup":
        return ['import "p/%s";' % n, 'import "p/%s";' % n], {n + ".fer": ok_mod}, []
    if kind == "aftercode":
        return [], {n + ".fer": ok_mod}, ['import "p/%s";' % n]
    if kind == "dir":
        return ['import "p/d%d";' % slot], {"d%d/x.fer" % slot: ok_mod}, []
    if kind == "uppercase_std":
        return ['import "STD/IO";'], {}, []
    if kind == "trailing_slash":
        return ['import "p/%s/";' % n], {n + ".fer": ok_mod}, []
    return [], {}, []


def run(tier, seed, replay=None):
    chk = core.Check("C13", tier, seed, "exploration")
    env = Env()
    env.build_all()
    rnd = random.Random(seed)
    lexdrv = env.build_overlay_driver("lexdrv", LEXDRV)
    gens = {}
    for mode, cfg in (("mut", "Gen_Input_mut.cfg"), ("bytes", "Gen_Input_bytes.cfg" if tier == "quick" else "Gen_Input_bytes4.cfg"),
                      ("proj", "Gen_Input_proj.cfg")):
        r = tlc.require_ok(tlc.run(env.tmpdir("tlc"), "InputGen", cfg, ["session"], workers=8, timeout=1800), cfg)
        gens[mode] = [c["c"] for c in r["cases"]]

    # seed programs for the token mutations
    seeds = sorted(glob.glob(os.path.join(REPO, "smoke_test", "*.fer")) + glob.glob(os.path.join(REPO, "smoke_test", "extra", "*.fer")))
    r = subprocess.run([lexdrv, "tokens"] + seeds, capture_output=True, text=True, timeout=300)
    toks = {}
    for ln in r.stdout.split("\n"):
        if ln.strip():
            o = json.loads(ln)
            toks[o["file"]] = o["tokens"]
    inputs = []        # (kind, descriptor, {rel: bytes}, entry rel)
    muts = [(f, c) for f in seeds if f in toks for c in gens["mut"]]
    rnd.shuffle(muts)
    for f, c in muts[:2200 if tier == "quick" else 40000]:
        with open(f) as fh:
            text = fh.read()
        m = mutate(text, toks[f], c)
        if m is not None:
            inputs.append(("mut", "%s|%s|%d|%s" % (os.path.basename(f), c["op"], c["i"], c["t"]), {"main.fer": m}, "main.fer"))
    by = gens["bytes"][:]
    if tier != "quick":
        rnd.shuffle(by)
        by = by[:30000]
    for cs in by:
        data = b"".join(CH[x] for x in cs)
        inputs.append(("bytes", "-".join(cs), {"main.fer": data}, "main.fer"))
        if len(cs) <= 2:
            inputs.append(("bytes-in-fn", "-".join(cs), {"main.fer": b"fn main() { " + data + b" }\n"}, "main.fer"))
    for c in gens["proj"]:
        imps, files, tail = [], {}, []
        for slot, kind in enumerate(c, 1):
            i, f, t = import_lines(kind, slot)
            imps += i
            files.update(f)
            tail += t
        main = "\n".join(imps + ["fn main() {", "    let x: i32 = 1;", "}"] + tail) + "\n"
        fs = {k: v.encode() for k, v in files.items()}
        fs["main.fer"] = main.encode()
        inputs.append(("proj", "+".join(c), fs, "main.fer"))
    if replay:
        with open(replay) as f:
            rp = json.load(f)["replay"]
        inputs = [i for i in inputs if i[0] == rp["kind"] and i[1] == rp["input"]]

    # materialise and run
    pool = fesrv.Pool(env, job_timeout=20)
    jobs = []
    for n, (kind, desc, files, entry) in enumerate(inputs):
        d = os.path.join(env.tmpdir("c13"), "p")
        for rel, data in files.items():
            path = os.path.join(d, rel)
            os.makedirs(os.path.dirname(path), exist_ok=True)
            with open(path, "wb") as f:
                f.write(data)
        full = n % 4 == 0                       # every fourth input also goes through code generation
        job = {"entry": os.path.join(d, entry), "skip": not full, "trace": os.path.join(d, "..", "trace.ndjson")}
        if full:
            job["out"] = os.path.join(d, "out.bin")
        jobs.append(job)
    obs = pool.compile_many(jobs)

    traces, owners = [], []
    cnt = {"ACCEPT": 0, "REJECT": 0, "CRASH": 0, "HANG": 0, "INCONSISTENT": 0}
    for (kind, desc, files, entry), job, o in zip(inputs, jobs, obs):
        cnt[o["cls"]] = cnt.get(o["cls"], 0) + 1
        rep = {"kind": kind, "input": desc, "files": {k: v.decode("utf-8", "replace") for k, v in files.items()}}
        if o["cls"] == "CRASH":
            chk.fail("C13|crash|" + panic_site(o["text"]), "internal crash on %s input %s: %s" % (
                kind, desc, [ln for ln in o["text"].split("\n") if ln.startswith("panic:")][:1]), rep)
            continue
        if o["cls"] == "HANG":
            chk.fail("C13|hang|" + kind, "no termination within the time limit on %s input %s" % (kind, desc), rep)
            continue
        if o["cls"] == "INCONSISTENT":
            chk.fail("C13|inconsistent|%s" % kind, "exit status, diagnostics and artifact disagree on %s input %s: exit %s, "
                     "%d error diagnostics, artifact %s, output tail %r" % (kind, desc, o["rc"], len(o["errors"]),
                                                                           o["artifact"], o["text"][-200:]), rep)
            continue
        # protocol validation: trace + observation
        evs = []
        tp = job["trace"]
        if o.get("via") == "srv" and os.path.exists(tp):
            with open(tp) as f:
                for ln in f:
                    try:
                        e = json.loads(ln)
                    except Exception:
                        continue
                    if e.get("ev") in KEEP:
                        evs.append({k: v for k, v in e.items() if k in ("ev", "p", "sev", "success", "errors", "before")})
        if not evs or evs[-1]["ev"] != "Result":
            continue
        d = os.path.dirname(job["entry"])
        locs = []
        for e in o["errors"]:
            if e["file"] is None:
                locs.append({"known": False, "infile": False, "line": 0, "nlines": 0})
                continue
            fp = e["file"]
            inside = os.path.exists(fp) and (os.path.abspath(fp).startswith(os.path.abspath(d)) or
                                             os.path.abspath(fp).startswith(os.path.abspath(env.libs)))
            nl = 0
            if inside:
                with open(fp, "rb") as f:
                    nl = f.read().count(b"\n") + 1
            locs.append({"known": True, "infile": bool(inside), "line": e["line"], "nlines": nl})
        evs.append({"ev": "Observed", "exit": o["rc"], "printed": len(o["errors"]), "artifact": bool(o["artifact"]),
                    "requested": not job["skip"], "locs": locs})
        traces.append(evs)
        owners.append((kind, desc, rep))

    def validate(idx):
        wd = env.tmpdir("c13t")
        with open(os.path.join(wd, "trace.ndjson"), "w") as f:
            for i in idx:
                for e in traces[i]:
                    f.write(json.dumps(e) + "\n")
        rr = tlc.run(wd, "CompileSession", "Trace_Session.cfg", ["session"], workers=1, timeout=1800)
        ok = rr["finished"] and not rr["error"]
        if not ok and "TraceAccepted" not in rr["out"]:
            raise tlc.TLCError("CompileSession validation did not run:\n" + tlc.tail(rr["out"], 30))
        return ok, (rr["depth"] or 1) - 1
    chunks = [list(range(i, len(traces), 8)) for i in range(8)]
    chunks = [c for c in chunks if c]
    n_valid = 0
    for idx, (ok, acc) in zip(chunks, core.pmap(validate, chunks, workers=8)):
        guard = 0
        while not ok and guard < 8:
            guard += 1
            tot = 0
            bad = None
            for i in idx:
                if acc < tot + len(traces[i]):
                    bad = i
                    break
                tot += len(traces[i])
            if bad is None:
                break
            kind, desc, rep = owners[bad]
            ev = traces[bad][acc - tot]
            chk.fail("C13|protocol|%s|%s" % (ev["ev"], kind), "the run on %s input %s is not a behaviour of CompileSession at "
                     "event %s" % (kind, desc, json.dumps(ev)[:300]), dict(rep, trace=traces[bad]))
            n_valid += idx.index(bad)
            idx = idx[idx.index(bad) + 1:]
            if not idx:
                break
            ok, acc = validate(idx)
        if ok:
            n_valid += len(idx)
    chk.sample({"kind": inputs[0][0], "input": inputs[0][1]})
    chk.sample({"kind": inputs[-1][0], "input": inputs[-1][1]})
    chk.cov.update({
        "evaluations": len(inputs), "distinct_nontrivial": len({(i[0], i[1]) for i in inputs}),
        "inputs_by_kind": {k: sum(1 for i in inputs if i[0] == k) for k in ("mut", "bytes", "bytes-in-fn", "proj")},
        "outcomes": cnt, "runs_validated_against_protocol": n_valid, "traces": len(traces),
        "server": pool.stats,
        "rule": "token mutations (delete, duplicate, swap, truncate, insert one of 17 tokens at every position) of the "
                "shipped smoke programs, all strings of <= 3 (4) characters over 14 lexer-relevant byte classes (alone "
                "and inside a function body), and 256 two-import project layouts (missing, self, mutual, malformed, "
                "remote, duplicate, after-code, directory ...); every 4th input also runs code generation",
    })
    chk.assumptions += ["a hang is a compile that does not return within 20 s (typical 0.05 s), confirmed alone through the CLI",
                        "crashes are keyed by the first repository frame below the Go panic"]
    return chk.finish()
