"""C11 — implicit numeric conversions never lose information (DESIGN §5 C11).

Spec: spec/numconv/NumConv.tla (Lossless judgment, closed forms checked by brute force at small
widths, enumerator of all 17x17 pairs x positions).  Binding: spec -> code, every enumerated case is
rendered, compiled with `ferret -t` (with its `as`-cast control) and the verdicts compared
one-directionally:  ACCEPT without cast  =>  Lossless(S, T)."""
import os

from vlib import core, fesrv, tlc
from vlib.env import Env

HEAD = 'import "std/io";\n'


def zero(t):
    return "0.0" if t.startswith("f") else "0"


def render(c, cast):
    S, T, pos = c["src"], c["dst"], c["pos"]
    shape = c.get("shape", "var")
    one = "1.0" if S.startswith("f") else "1"
    e = {"var": "s", "div": "s / one", "mul": "s * one", "call": "same(s)"}[shape]
    v = "(%s) as %s" % (e, T) if cast and shape != "var" else ("s as %s" % T if cast else e)
    if shape != "var":          # the operand `one` and the identity function live at module level
        pre = "fn same(x: %s) -> %s {\n    return x;\n}\n" % (S, S)
        r = render(dict(c, shape="var"), cast)
        r = r.replace("(s: %s" % S, "(s: %s, one: %s" % (S, S), 1)
        # the converted expression is the only use of `s` after its declaration: rebuild from the plain rendering
        plain = "s as %s" % T if cast else "s"
        i = r.rindex(plain)
        return r[:i].replace(HEAD, HEAD + pre, 1) + v + r[i + len(plain):]
    main = "fn main() { }\n"
    if pos == "let":
        body = "fn f(s: %s) {\n    let t: %s = %s;\n}\n" % (S, T, v)
    elif pos == "assign":
        body = "fn f(s: %s, t0: %s) {\n    let t: %s = t0;\n    t = %s;\n}\n" % (S, T, T, v)
    elif pos == "arg":
        body = "fn g(t: %s) { }\nfn f(s: %s) {\n    g(%s);\n}\n" % (T, S, v)
    elif pos == "ret":
        body = "fn f(s: %s) -> %s {\n    return %s;\n}\n" % (S, T, v)
    elif pos == "field":
        body = "type P struct { .X: %s };\nfn f(s: %s) {\n    let p: P = { .X = %s };\n}\n" % (T, S, v)
    elif pos == "elem":
        body = "fn f(s: %s) {\n    let a: []%s = [%s];\n}\n" % (S, T, v)
    elif pos == "fieldassign":
        body = ("type P struct { .X: %s };\nfn f(s: %s, t0: %s) {\n    let p: P = { .X = t0 };\n    p.X = %s;\n}\n"
                % (T, S, T, v))
    elif pos == "methodarg":
        body = ("type P struct { .X: i32 };\nfn (p: P) m(t: %s) { }\nfn f(s: %s) {\n    let p: P = { .X = 1 };\n"
                "    p.m(%s);\n}\n" % (T, S, v))
    elif pos == "closureret":
        body = "fn f(s: %s) {\n    let g := fn() -> %s {\n        return %s;\n    };\n}\n" % (S, T, v)
    elif pos == "compound":
        body = "fn f(s: %s, t0: %s) {\n    let t: %s = t0;\n    t += %s;\n}\n" % (S, T, T, v)
    elif pos == "optional":
        body = "fn f(s: %s) {\n    let t: %s? = %s;\n}\n" % (S, T, v)
    elif pos == "optarg":
        body = "fn g(t: %s?) { }\nfn f(s: %s) {\n    g(%s);\n}\n" % (T, S, v)
    elif pos == "optret":
        body = "fn f(s: %s) -> %s? {\n    return %s;\n}\n" % (S, T, v)
    elif pos == "optfield":
        body = "type P struct { .X: %s? };\nfn f(s: %s) {\n    let p: P = { .X = %s };\n}\n" % (T, S, v)
    elif pos == "optassign":
        body = "fn f(s: %s, t0: %s) {\n    let t: %s? = t0;\n    t = %s;\n}\n" % (S, T, T, v)
    elif pos == "ret_after_lit":       # a function literal with another return type earlier in the same body
        body = ("fn f(s: %s) -> %s {\n    let id := fn(v: %s) -> %s {\n        return v;\n    };\n    let k: %s = id(s);\n    return %s;\n}\n"
                % (S, T, S, S, S, v))
    elif pos == "ret_in_lit_after_lit":  # the same one level down: an inner literal before the outer literal's return
        body = ("fn f(s: %s) {\n    let outer := fn(w: %s) -> %s {\n        let inner := fn(v: %s) -> %s {\n            return v;\n        };\n"
                "        let s: %s = inner(w);\n        return %s;\n    };\n}\n" % (S, S, T, S, S, S, v))
    elif pos == "methodret":
        body = "type P struct { .X: i32 };\nfn (p: P) m(s: %s) -> %s {\n    return %s;\n}\n" % (S, T, v)
    elif pos == "branchret":
        body = "fn f(s: %s, t0: %s, c: bool) -> %s {\n    if c {\n        return %s;\n    }\n    return t0;\n}\n" % (S, T, T, v)
    elif pos == "closurearg":
        body = "fn f(s: %s) {\n    let g := fn(t: %s) { };\n    g(%s);\n}\n" % (S, T, v)
    elif pos == "append":
        body = "fn f(s: %s) {\n    let a: []%s = [];\n    append(&'a, %s);\n}\n" % (S, T, v)
    elif pos == "elemassign":
        body = "fn f(s: %s, t0: %s) {\n    let a: []%s = [t0];\n    a[0] = %s;\n}\n" % (S, T, T, v)
    elif pos == "coalesce":            # the fallback of ?? stands where the optional's inner type is expected
        body = "fn f(s: %s, o: %s?) {\n    let t: %s = o ?? %s;\n}\n" % (S, T, T, "(s as %s)" % T if cast else "s")
    elif pos == "catchfallback":       # the fallback value of a catch stands where the result's ok type is expected
        body = ("fn g(t0: %s) -> str ! %s {\n    return t0;\n}\nfn f(s: %s, t0: %s) {\n    let t: %s = g(t0) catch %s;\n}\n"
                % (T, T, S, T, T, "(s as %s)" % T if cast else "s"))
    elif pos == "global":
        body = "fn src() -> %s {\n    let z: %s = %s;\n    return z;\n}\nfn f() {\n    let s: %s = src();\n    let t: %s = %s;\n}\n" % (
            S, S, zero(S), S, T, v)
    else:
        raise core.Undecided("unknown position " + pos)
    return HEAD + body + main


def run(tier, seed, replay=None):
    chk = core.Check("C11", tier, seed, "model_checking")
    env = Env()
    env.build_compiler()
    env.build_runtime()
    cfg = "Gen_NumConv.cfg" if tier == "quick" else "Gen_NumConv_thorough.cfg"
    res = tlc.require_ok(tlc.run(env.tmpdir("tlc"), "NumConv", cfg, ["numconv"], workers=1), "NumConv")
    cases = res["cases"]
    if replay:
        import json
        with open(replay) as f:
            rk = json.load(f)["key"]
        cases = [c for c in cases if c["key"] == rk]
    if not cases:
        raise core.Undecided("no cases emitted")

    pool = fesrv.Pool(env)
    jobs = []
    for i, c in enumerate(cases):
        d = env.tmpdir("c11")
        for nm, cast in (("case", False), ("ctl", True)):
            p = os.path.join(d, nm + ".fer")
            with open(p, "w") as f:
                f.write(render(c, cast))
            jobs.append({"entry": p, "skip": True})
            if not cast:
                c["_path"] = p
    obs = pool.compile_many(jobs)
    results = [(c, {"case": obs[2 * i], "ctl": obs[2 * i + 1]}) for i, c in enumerate(cases)]
    n_acc = n_void = n_rej_lossless = n_crash = 0
    nontrivial = set()
    for c, o in results:
        ctl, cs = o["ctl"], o["case"]
        if ctl["cls"] != "ACCEPT":
            n_void += 1          # position not expressible for this pair; counted, never blamed
            continue
        nontrivial.add((c["src"], c["dst"], c["pos"], c.get("shape", "var")))
        if cs["cls"] == "ACCEPT":
            n_acc += 1
            if not c["lossless"] and env.compile(c["_path"], typecheck_only=True)["cls"] == "ACCEPT":
                chk.fail(c["key"], "implicit %s -> %s accepted in position '%s' but not every %s value is "
                         "representable in %s" % (c["src"], c["dst"], c["pos"], c["src"], c["dst"]),
                         {"case": {k: v for k, v in c.items() if k != "_path"}, "program": render(c, False)})
        elif cs["cls"] in ("CRASH", "HANG", "INCONSISTENT"):
            n_crash += 1
            # "require the cast" means a diagnostic asking for it; a compiler that dies on the conversion did not judge it
            o2 = env.compile(c["_path"], typecheck_only=True)
            if o2["cls"] == "CRASH":
                chk.fail(c["key"] + "|crash", "the compiler crashes on %s -> %s in position '%s' instead of accepting or "
                         "requiring the cast: %s" % (c["src"], c["dst"], c["pos"], o2["text"][-300:]),
                         {"case": {k: v for k, v in c.items() if k != "_path"}, "program": render(c, False)})
        else:
            if c["lossless"]:
                n_rej_lossless += 1
        if c["src"] != c["dst"]:
            chk.sample({"case": {k: v for k, v in c.items() if k != "_path"}, "verdict": cs["cls"], "control": ctl["cls"]})
    void_rate = n_void / float(len(results))
    if void_rate > 0.25:
        raise core.Undecided("void rate %.2f: controls rejected; renderer out of date?" % void_rate)
    chk.cov.update({
        "states": res["distinct"], "transitions": res["states"],
        "traces_validated_against_impl": len(results) - n_void,
        "evaluations": 2 * len(results), "distinct_nontrivial": len(nontrivial),
        "rule": "TLC enumerates all 17x17 ordered type pairs x positions x expression shapes (variable; in five positions also x / y, x * y, f(x)); a case is non-trivial when its "
                "explicit-cast control compiles (so the position is expressible for the pair)",
        "exhaustive": True, "cases": len(results), "accepted_without_cast": n_acc,
        "lossless_but_cast_required": n_rej_lossless, "void_controls": n_void,
        "front_end_crash_or_inconsistent": n_crash, "server": pool.stats,
        "spec_assumptions_checked": ["FormulaSoundIntInt", "FormulaSoundIntFloat", "Reflexive", "Transitive",
                                     "ByteIsU8"],
    })
    chk.assumptions += ["f32/f64/f128/f256 are IEEE-754 binary formats with 24/53/113/237-bit significands "
                        "(matches getFloatPrecision's 7/16/34/71 decimal digits)",
                        "renderer (checks/c11.py) and `ferret -t` front-end verdict are trusted observers"]
    return chk.finish()
