"""C06 — immutable bindings cannot be modified.

Spec: spec/lang/Mutability.tla (Immutable / Mutates / MustReject, applicability of paths and forms,
enumerator of the full product kind x path x form x context).  Binding, spec -> code: each case and
its mutable twin (the control) are rendered and compiled by the real front end:
control ACCEPTed (else the case is void) and case not ACCEPTed.  A wrongly accepted case is also
compiled natively and run to show the changed value."""
import json
import os

from vlib import core, fesrv, tlc
from vlib.env import Env

PRELUDE = '''import "std/io";
type Q struct { .X: i32 };
type P struct { .X: i32, .In: Q, .A: [3]i32 };
fn (p: &'P) bump() { p.X = p.X + 1; }
fn (q: &'Q) bump() { q.X = q.X + 1; }
fn mutI(r: &'i32) { r = 5; }
fn mutP(r: &'P) { r.X = 5; }
fn mutQ(r: &'Q) { r.X = 5; }
fn mutS(r: &'str) { r = "m"; }
fn fails() -> str ! i32 { return "e"!; }
type H struct { .Z: i32 };
'''
PLIT = "{ .X = 1, .In = { .X = 2 } as Q, .A = [1, 2, 3] } as P"


def place(path, x="x"):
    return {"id": x, "paren": "(%s)" % x, "fld": x + ".X", "chain": x + ".In.X", "arrfld": x + ".A[0]",
            "inner": x + ".In", "parenfld": "(%s).X" % x, "idx": x + "[0]"}[path]


def mutation(form, e, t, mutable=False, whole_ref=False):
    if form == "fnslot":
        # a function that writes through its &' parameter bound to a function-typed slot whose parameter is &T, then
        # called with a shared borrow of the place: the only way in is the binding, which must not type-check. The
        # control binds it to a slot of its own type and passes a mutable borrow of the (then mutable) place.
        ty = {"int": "i32", "P": "P", "Q": "Q", "str": "str"}[t]
        fnm = {"int": "mutI", "P": "mutP", "Q": "mutQ", "str": "mutS"}[t]
        rf = "&'" if mutable else "&"
        return "let slot: fn(r: %s%s) = %s; slot(%s%s);" % (rf, ty, fnm, "" if whole_ref else rf, e)
    if form == "assign":
        rhs = {"int": "7", "P": PLIT, "Q": "{ .X = 9 } as Q", "arr": "[4, 5, 6]", "str": '"z"'}[t]
        return "%s = %s;" % (e, rhs)
    if form == "compound":
        return "%s += 1;" % e
    if form == "inc":
        return "%s++;" % e
    if form == "dec":
        return "%s--;" % e
    ty = {"int": "i32", "P": "P", "Q": "Q", "arr": "[3]i32", "str": "str"}[t]
    if form == "borrow":
        return "let m: &'%s = &'%s;" % (ty, e)
    if form == "pass":
        return "%s(&'%s);" % ({"int": "mutI", "P": "mutP", "Q": "mutQ", "str": "mutS"}[t], e)
    if form == "method":
        return "%s.bump();" % e
    raise core.Undecided("form " + form)


def wrap_ctx(ctx, stmts, ind):
    pad = "    " * ind
    body = [pad + "    " + s for s in stmts]
    if ctx in ("plain", "method"):
        return [pad + s for s in stmts]
    if ctx == "if":
        return [pad + "if gate == 1 {"] + body + [pad + "}"]
    if ctx == "loop":
        return [pad + "let k: i32 = 0;", pad + "while k < 1 {", pad + "    k = k + 1;"] + body + [pad + "}"]
    if ctx == "match":
        return [pad + "match gate {", pad + "    1 => {"] + [pad + "    " + s for s in body] + [pad + "    }",
                                                                                             pad + "    _ => { }", pad + "}"]
    if ctx == "closure":
        return [pad + "let g := fn() {"] + body + [pad + "};", pad + "g();"]
    raise core.Undecided("ctx " + ctx)


def render(c, mutable):
    """mutable=False: the case; True: its twin with a mutable root (the control)."""
    k, ctx = c["kind"], c["ctx"]
    e = place(c["path"])
    mut = [mutation(c["form"], e, c["placeType"], mutable, k.startswith("ref_") and c["path"] in ("id", "paren"))]
    glob, pre, params, args, recv = [], [], "gate: i32", "1", None
    dk = "let" if mutable else "const"
    rf = "&'" if mutable else "&"
    if k == "const_int":
        pre = ["%s x: i32 = 3;" % dk]
    elif k == "const_struct":
        pre = ["%s x: P = %s;" % (dk, PLIT)]
    elif k == "const_arr":
        pre = ["%s x: [3]i32 = [1, 2, 3];" % dk]
    elif k == "gconst_int":
        if mutable:
            pre = ["let x: i32 = 3;"]
        else:
            glob = ["const x: i32 = 3;"]
    elif k == "gconst_struct":
        if mutable:
            pre = ["let x: P = %s;" % PLIT]
        else:
            glob = ["const x: P = %s;" % PLIT]
    elif k == "ref_param":
        params += ", x: %sP" % rf
        pre_main = "let p0: P = %s;" % PLIT
        args = "1, %sp0" % rf
    elif k == "ref_param_int":
        params += ", x: %si32" % rf
        args = "1, %sn0" % rf
    elif k == "ref_recv":
        recv = "x: %sP" % rf
    elif k == "ref_local":
        pre = ["let p0: P = %s;" % PLIT, "let x: %sP = %sp0;" % (rf, rf)]
    inner = wrap_ctx(ctx, mut, 1)
    if k.startswith("for_index"):
        decl = {"for_index": "let arr: []i32 = [1, 2, 3];", "for_index_blank": "let arr: []i32 = [1, 2, 3];",
                "for_index_str": 'let arr: str = "abc";', "for_index_fixed": "let arr: [3]i32 = [1, 2, 3];"}[k]
        second = "_" if k == "for_index_blank" else "v"
        if mutable:
            loop_body = wrap_ctx(ctx, ["let x: i32 = i0;"] + mut, 2) if ctx in ("plain", "method") else \
                ["        let x: i32 = i0;"] + wrap_ctx(ctx, mut, 2)
            body = ["    " + decl, "    for i0, %s in arr {" % second] + loop_body + ["    }"]
        else:
            body = ["    " + decl, "    for x, %s in arr {" % second] + wrap_ctx(ctx, mut, 2) + ["    }"]
    elif k == "catch_err":
        if mutable:
            hb = ["        let x: str = e0;"] + wrap_ctx(ctx, mut, 2)
            body = ["    let d: i32 = fails() catch e0 {"] + hb + ["    } 0;"]
        else:
            body = ["    let d: i32 = fails() catch x {"] + wrap_ctx(ctx, mut, 2) + ["    } 0;"]
    else:
        body = ["    " + s for s in pre] + inner
    src = [PRELUDE] + glob
    if ctx == "method" or recv:
        r = recv or "h: &H"
        src += ["fn (%s) host(%s) {" % (r, params)] + body + ["}"]
        main = []
        if recv:
            main += ["    let p0: P = %s;" % PLIT, "    p0.host(%s);" % args]
        else:
            main += ["    let h0: H = { .Z = 1 } as H;"]
            if k == "ref_param":
                main += ["    let p0: P = %s;" % PLIT]
            if k == "ref_param_int":
                main += ["    let n0: i32 = 4;"]
            main += ["    h0.host(%s);" % args]
    else:
        src += ["fn host(%s) {" % params] + body + ["}"]
        main = []
        if k == "ref_param":
            main += ["    let p0: P = %s;" % PLIT]
        if k == "ref_param_int":
            main += ["    let n0: i32 = 4;"]
        main += ["    host(%s);" % args]
    src += ["fn main() {"] + main + ["}"]
    return "\n".join(src) + "\n"


def run(tier, seed, replay=None):
    chk = core.Check("C06", tier, seed, "model_checking")
    env = Env()
    env.build_all()
    res = tlc.require_ok(tlc.run(env.tmpdir("tlc"), "Mutability", "Gen_Mutability.cfg", ["lang"], workers=4), "Mutability")
    cases = res["cases"]
    if replay:
        with open(replay) as f:
            rk = json.load(f)["key"]
        cases = [c for c in cases if c["key"] == rk]
    pool = fesrv.Pool(env)
    jobs = []
    for c in cases:
        d = env.tmpdir("c06")
        for nm, mutable in (("case", False), ("ctl", True)):
            p = os.path.join(d, nm + ".fer")
            with open(p, "w") as f:
                f.write(render(c, mutable))
            jobs.append({"entry": p, "skip": True})
            if not mutable:
                c["_path"] = p
    obs = pool.compile_many(jobs)
    n_void = n_rej = 0
    void_examples = []
    void_kinds = {}
    nontriv = set()
    for i, c in enumerate(cases):
        cs, ctl = obs[2 * i], obs[2 * i + 1]
        if ctl["cls"] != "ACCEPT":
            n_void += 1
            void_kinds[c["kind"]] = void_kinds.get(c["kind"], 0) + 1
            if len(void_examples) < 8:
                void_examples.append({"key": c["key"], "control": ctl["cls"],
                                      "msg": [e["msg"][:80] for e in ctl["errors"]][:2]})
            continue
        nontriv.add(c["key"])
        if cs["cls"] == "ACCEPT":
            if env.compile(c["_path"], typecheck_only=True)["cls"] == "ACCEPT":
                chk.fail(c["key"], "mutation form '%s' on %s reached from an immutable %s (context %s) is accepted"
                         % (c["form"], place(c["path"]), c["kind"], c["ctx"]),
                         {"case": {k: v for k, v in c.items() if k != "_path"}, "program": render(c, False)})
        else:
            n_rej += 1
        if i % 211 == 0:
            chk.sample({"case": c["key"], "verdict": cs["cls"], "control": ctl["cls"]})
    if n_void > 0.5 * len(cases):
        raise core.Undecided("more than half of the controls are rejected (%d of %d): renderer out of date; e.g. %s"
                             % (n_void, len(cases), void_examples[:3]))
    chk.cov.update({
        "states": res["distinct"], "transitions": res["states"], "traces_validated_against_impl": len(cases) - n_void,
        "cases": len(cases), "rejected_as_required": n_rej, "void_controls": n_void, "void_controls_by_kind": void_kinds,
        "void_control_examples": void_examples,
        "evaluations": 2 * len(cases), "distinct_nontrivial": len(nontriv), "exhaustive": True,
        "rule": "full product of 11 immutable binding kinds x 8 access paths x 7 mutation forms x 6 contexts restricted "
                "by the specification's applicability predicates (1428 cases); non-trivial = the mutable twin compiles",
        "server": pool.stats,
    })
    chk.assumptions += ["the control (same program with a mutable root) isolates the mutability rule"]
    return chk.finish()
