"""C18 — composite values keep every component intact (layout soundness).

Spec: spec/layout/Layout.tla (soundness of a reported layout: components inside and pairwise disjoint, flag /
tag bytes outside the payloads; no algorithm prescribed), LayoutGen.tla (enumerator of type expressions),
LayoutCheck.tla (validation of the layouts the implementation reports) and spec/lang/FerretSem.tla.

Binding (i), code -> spec: the overlay driver harness/overlay/laydrv asks the real mir.DataLayout (SizeOf, AlignOf,
StructLayout, FieldOffset), and the native emitter's resultTagOffset, for every enumerated type at pointer sizes 4
and 8 -- once with a fresh DataLayout and once with the DataLayout that has laid out all earlier types of the
session -- and TLC validates every logged layout against Sound and against independence from the session.
Binding (ii), code -> spec: for a sample of the types a program stores into every component one at a time and
reads every component, discriminant and neighbouring local back after each store, copies the value (binding,
assignment, element copy, by-value parameter, return value); it is built for both targets, run, and the recorded
lines are validated by TLC against FerretSem."""
import json
import os
import random
import subprocess

from vlib import core, laygen, progen, semrun, tlc
from vlib.env import Env

UNSUPPORTED = ("unsupported", "not supported", "not implemented")


def sig(t):
    k = t["k"]
    if k == "p":
        return t["n"]
    inner = ",".join(sig(x) for x in t["kids"])
    return {"st": "st", "ar": "ar%d" % t["a"], "op": "op", "rs": "rs"}[k] + "(" + inner + ")"


def gen_types(env, mode):
    r = tlc.require_ok(tlc.run(env.tmpdir("lg"), "LayoutGen", "Gen_Layout_%s.cfg" % mode, ["layout"], workers=4, timeout=900), "LayoutGen " + mode)
    cs = r["cases"]
    cs.sort(key=lambda c: json.dumps(c, sort_keys=True))
    return cs, r


def corrupt(rec):
    """Binding self-test: make the second field of a struct layout start inside the first one."""
    r = json.loads(json.dumps(rec))
    for which in ("fresh", "shared"):
        n = r[which]
        n["offs"][1] = n["offs"][0]
    return r


def layouts(env, chk, drv, types, rnd):
    order = list(range(len(types)))
    rnd.shuffle(order)           # the session order decides which types a shared DataLayout has seen before
    inp = "".join(json.dumps({"id": i, "t": types[i]}) + "\n" for i in order)
    p = subprocess.run([drv], input=inp, capture_output=True, text=True, timeout=900)
    if p.returncode != 0:
        raise core.Undecided("layout driver failed: " + p.stderr[-400:])
    recs = [json.loads(l) for l in p.stdout.split("\n") if l.strip()]
    if len(recs) != 2 * len(types):
        raise core.Undecided("layout driver answered %d of %d queries" % (len(recs), 2 * len(types)))
    # self-test record: a corrupted copy of a real struct layout with >= 2 fields must be rejected by the spec
    probe = next((r for r in recs if r["shared"]["k"] == "st" and len(r["shared"]["offs"]) >= 2 and r["shared"]["kids"][0]["size"] > 0), None)
    if probe is None:
        raise core.Undecided("no struct layout to self-test the binding with")
    bad = corrupt(probe)
    bad["id"] = -1
    chunks = [recs[i:i + 2500] for i in range(0, len(recs), 2500)]
    chunks[0] = [bad] + chunks[0]

    def judge(ch):
        wd = env.tmpdir("lc")
        with open(os.path.join(wd, "cases.ndjson"), "w") as f:
            for r in ch:
                f.write(json.dumps(r) + "\n")
        r = tlc.run(wd, "LayoutCheck", "LayoutCheck.cfg", ["layout"], workers=1, timeout=1800, case_prefix="@@OUT ", heap="4g")
        if not r["finished"] or r["error"] or len(r["cases"]) != len(ch):
            raise core.Undecided("LayoutCheck failed: " + tlc.tail(r["out"], 15))
        return r
    res = core.pmap(judge, chunks, workers=8)
    verdicts = [v for r in res for v in r["cases"]]
    st = sum(r["distinct"] for r in res)
    self_ok = False
    n_bad = n_ctx = n_misaligned = 0
    for v in verdicts:
        if v["id"] == -1:
            self_ok = v["why"] != "" and v["whyf"] != ""
            continue
        t = types[v["id"]]
        rep = {"type": t, "signature": sig(t), "ptr": v["ptr"],
               "reported": next(r for r in recs if r["id"] == v["id"] and r["ptr"] == v["ptr"])}
        if v["whyf"]:
            n_bad += 1
            chk.fail("C18|layout|%s|%s|ptr%d" % (v["whyf"].split(".")[-1], sig(t)[:60], v["ptr"]),
                     "the layout reported for %s at pointer size %d is unsound: %s" % (sig(t), v["ptr"], v["whyf"]), rep)
        elif v["why"] or not v["same"]:
            n_ctx += 1
            chk.fail("C18|layout|session-dependent|%s|ptr%d" % (sig(t)[:60], v["ptr"]),
                     "the layout of %s at pointer size %d depends on the types laid out before it%s" %
                     (sig(t), v["ptr"], (" and is unsound: " + v["why"]) if v["why"] else ""), rep)
        if not v["aligned"]:
            n_misaligned += 1
    if not self_ok:
        raise core.Undecided("binding self-test failed: the specification accepted a layout whose fields overlap")
    return len(recs), st, n_misaligned


def family_roots(fam, rnd, n):
    """Roots holding two look-alike struct types (same field names, different widths), narrower first and wider first."""
    out = []
    by_len = {}
    for t in fam:
        by_len.setdefault(t["a"], []).append(t)
    for _ in range(n):
        ts = by_len[rnd.choice(sorted(by_len))]
        a, b = rnd.sample(ts, 2)
        out.append({"k": "st", "n": "", "a": 2, "kids": [a, b]})
    return out


def run(tier, seed, replay=None):
    chk = core.Check("C18", tier, seed, "model_checking")
    env = Env()
    env.build_all()
    drv = env.build_overlay_driver("laydrv", os.path.join(core.VERIF, "harness/overlay/laydrv/main.go"),
                                   extra={"internal/codegen/qbe_embeddings/zz_verif_export.go":
                                          os.path.join(core.VERIF, "harness/overlay/laydrv/qbe_export.go")})
    rnd = random.Random(seed)
    d1, r1 = gen_types(env, "d1")
    d2, r2 = gen_types(env, "d2")
    fam, r3 = gen_types(env, "fam")
    states = r1["distinct"] + r2["distinct"] + r3["distinct"]
    trans = r1["states"] + r2["states"] + r3["states"]

    # ---- (i) reported layouts
    rs2 = [t for t in d2 if t["k"] == "rs"]          # results with composite payloads: always all of them
    d2s = d2 if tier == "thorough" else rnd.sample([t for t in d2 if t["k"] != "rs"], 1500) + rs2
    ltypes = d1 + fam + d2s
    n_lay, st_lc, n_mis = layouts(env, chk, drv, ltypes, rnd)

    # ---- (ii) programs
    if replay:
        with open(replay) as f:
            rp = json.load(f)["replay"]
        roots = [rp["type"]] if "type" in rp and "prog" not in rp else []
        progs = [(rp["prog"], rp.get("name", "replay"), rp.get("type"))] if "prog" in rp else []
    else:
        nd1, nd2, nf = (170, 110, 24) if tier == "quick" else (len(d1), 2500, 300)
        by_kind = {}
        for t in d1:
            by_kind.setdefault(t["k"] + str(len(t["kids"])), []).append(t)
        roots = []
        for k in sorted(by_kind):            # every kind of depth-1 type, evenly
            ts = by_kind[k]
            roots += rnd.sample(ts, min(len(ts), max(8, nd1 * len(ts) // len(d1))))
        # depth 2, evenly over the shapes (top-level kind + kinds of the children): arrays of structs, optionals of
        # structs and structs holding them are few among the many structs of primitives and must not be crowded out
        shapes = {}
        for t in d2:
            if t["k"] != "rs":
                shapes.setdefault(t["k"] + "".join(sorted(set(x["k"] for x in t["kids"]))), []).append(t)
        for k in sorted(shapes):
            ts = shapes[k]
            roots += ts if k.startswith("ar") else rnd.sample(ts, min(len(ts), max(12, nd2 // len(shapes))))
        roots += rs2 if tier == "thorough" else rnd.sample(rs2, min(len(rs2), 36))
        roots += family_roots(fam, rnd, nf)
        progs = []
    for t in roots:
        progs.append((laygen.program(t), sig(t)[:70], t))
    if not replay:
        # dynamic arrays of composite elements: appended literals and copies of the array's own elements appended
        # through a mutable reference (the append may move the buffer the element is read from)
        elems = [t for t in d1 if t["k"] == "st"] + [t for t in d2 if t["k"] == "ar" and t["kids"][0]["k"] == "p"] + \
                [{"k": "p", "n": n, "a": 0, "kids": []} for n in ("u128", "i256")]
        for t in rnd.sample(elems, min(len(elems), 24 if tier == "quick" else 400)):
            progs.append((laygen.dyn_program(t), "dyn[" + sig(t)[:60] + "]", t))
    plist = [(p, n) for p, n, _ in progs]
    obs_n = semrun.observe(env, plist, "native")
    widx = [i for i, (_, _, t) in enumerate(progs) if t is None or laygen.wasm_ok(t)]
    obs_w = semrun.observe(env, [plist[i] for i in widx], "wasm")
    errors = semrun.judge(env, obs_n) + semrun.judge(env, obs_w)
    if errors:
        raise core.Undecided("FerretSem could not evaluate %d generated programs, e.g. %s" % (len(errors), errors[0][1][:400]))
    stats = {"native": {"ok": 0, "void": 0}, "wasm": {"ok": 0, "void": 0}}
    nontrivial = set()
    for target, obs, idx in (("native", obs_n, list(range(len(progs)))), ("wasm", obs_w, widx)):
        for ob, i in zip(obs, idx):
            t = progs[i][2]
            rep = {"name": ob["name"], "type": t, "target": target, "program": ob["text"], "prog": ob["prog"]}
            st = ob["status"]
            if st in ("crash", "hang"):
                chk.fail("C18|compiler-%s|%s|%s" % (st, target, ob["site"]), "a program over %s makes the compiler %s: %s" % (ob["name"], st, ob["msg"]), rep)
            elif st in ("rejected", "void"):
                msgs = ob.get("msgs", [ob.get("msg", "")])
                stats[target]["void"] += 1          # nothing was stored: the property says nothing about a rejected program
                chk.cov.setdefault("void_reasons", {}).setdefault(target + ": " + ob["msg"][:60], 0)
                chk.cov["void_reasons"][target + ": " + ob["msg"][:60]] += 1
                ex = chk.cov.setdefault("void_examples", {}).setdefault(target + ": " + ob["msg"][:60], [])
                if len(ex) < 3:
                    ex.append(ob["name"])
            elif st == "badrun":
                chk.fail("C18|run|%s|%s|%s" % (target, ob["halt"], ob["name"]), "the %s program over %s ends with %s" % (target, ob["name"], ob["msg"]), rep)
            else:
                v = ob["verdict"]
                if v is None:
                    raise core.Undecided("no verdict for %s" % ob["name"])
                if v["ok"]:
                    stats[target]["ok"] += 1
                    nontrivial.add((target, ob["name"]))
                else:
                    k, real, want = semrun.first_diff(ob["out"], v["out"], ob["halt"], v["halt"])
                    chk.fail("C18|behaviour|%s|%s" % (target, ob["name"]),
                             "%s, %s: line %d of the output is %r, the semantics prescribe %r" % (ob["name"], target, k + 1, real, want),
                             dict(rep, expected=v["out"], got=ob["out"]))
    void_rate = (stats["native"]["void"]) / max(1, len(progs))
    if not replay and void_rate > 0.5:
        raise core.Undecided("%.0f%% of the generated programs are not accepted natively (vacuous)" % (100 * void_rate))
    for ob in obs_n[:1] + obs_n[-1:]:
        chk.sample({"type": ob["name"], "source": ob["text"][:900], "printed": ob.get("out", [])[:8]})
    chk.cov.update({
        "states": states + st_lc, "transitions": trans + st_lc,
        "traces_validated_against_impl": n_lay + stats["native"]["ok"] + stats["wasm"]["ok"],
        "type_expressions_enumerated": {"depth1": len(d1), "depth2": len(d2), "families": len(fam)},
        "layouts_validated": n_lay, "layouts_misaligned_advisory": n_mis,
        "programs": len(progs), "programs_agreeing_native": stats["native"]["ok"], "programs_agreeing_wasm": stats["wasm"]["ok"],
        "programs_void_native": stats["native"]["void"], "programs_void_wasm": stats["wasm"]["void"],
        "programs_built_for_wasm": len(widx),
        "evaluations": n_lay + len(progs) + len(widx), "distinct_nontrivial": n_lay // 2 + len(nontrivial),
        "exhaustive": tier == "thorough",
        "rule": "type expressions enumerated by TLC (all of depth 1 over leaf widths 1,2,4,8,16,32, bool and pointer-sized str: "
                "structs of <= 3 fields, arrays, optionals, results; depth 2 over a reduced inner set; look-alike families of 5/6-field "
                "structs); each type's layout as reported by the real DataLayout at pointer sizes 4 and 8 (fresh and session-shared) "
                "validated by TLC against Sound; a program per sampled type (store into each component in turn, read everything back, "
                "whole-value copies) built natively and, where the wasm back end implements the type, as .wasm, its output validated "
                "against FerretSem. Distinct = distinct type expressions; non-trivial = layout answered / program ran and was judged",
    })
    chk.assumptions += ["alignment is advisory (neither target needs aligned accesses for a value to stay intact)",
                        "programs not accepted by a target are void for that target (counted per reason)",
                        "the optional flag offset and the array stride are computed inline by the emitters as SizeOf(payload) / "
                        "SizeOf(element); the driver reports the same expressions, the programs observe the emitters themselves"]
    return chk.finish()
