"""C15 — import graphs: every cycle is rejected, every DAG builds, under all schedules.

Spec: spec/loader/ModuleLoader.tla (+ LoaderTrace.tla).  TLC explores every project over the
module universe x every interleaving and checks Acyclic / CycleRejected / DagBuilds / ParsedOnce /
TopoOK on the design; it emits one case per distinct terminal state (project, outcome, the schedule
that reached it).  Binding, both directions:
  spec -> code: each emitted schedule is forced through the hooked compiler's gates; the verdict
                (circular-import rejection vs. successful build, exit status, artifact) must be the
                one the specification prescribes for the project;
  code -> spec: the event trace of every run (forced and natural) is validated by TLC against
                LoaderTrace: each DepEdge result must be what the atomic AddDependency action
                yields in the current graph, each module is claimed/parsed once, wg balance,
                topological order as computed by the spec."""
import json
import os
import random

from vlib import core, loader, tlc
from vlib.env import Env


def run(tier, seed, replay=None):
    chk = core.Check("C15", tier, seed, "model_checking")
    env = Env()
    env.build_all()
    rnd = random.Random(seed)

    # 1. design-level model checking + case emission
    cfgs = ["Gen_Loader2.cfg", "Gen_Loader3.cfg", "Gen_Loader3S.cfg", "Gen_Loader3MS.cfg", "Gen_Loader4S.cfg"] if tier == "quick" else \
           ["Gen_Loader2.cfg", "Gen_Loader3.cfg", "Gen_Loader3S.cfg", "Gen_Loader3MS.cfg", "Gen_Loader3M.cfg", "Gen_Loader3O.cfg", "Gen_Loader4S.cfg"]
    cases = []
    states = trans = 0
    for cfg in cfgs:
        sim = None
        kw = {}
        if cfg == "Gen_Loader4S.cfg":
            kw = dict(simulate="num=%d" % (60 if tier == "quick" else 750), depth=100, seed=seed)       # num is per worker
        if cfg in ("Gen_Loader3S.cfg", "Gen_Loader3MS.cfg"):          # random interleavings (MS: some modules have no file)
            n = (100 if cfg == "Gen_Loader3S.cfg" else 40) if tier == "quick" else 1500
            kw = dict(simulate="num=%d" % n, depth=80, seed=seed)
        r = tlc.require_ok(tlc.run(env.tmpdir("tlc"), "MC_Loader", cfg, ["loader"], workers=4 if kw else 16,
                                   timeout=3000, **kw), cfg)
        if r["violated"]:
            raise core.Undecided("design-level invariant violated in " + cfg + ":\n" + tlc.tail(r["out"]))
        if not kw:
            states += r["distinct"]
            trans += r["states"]
        for c in r["cases"]:
            c["cfg"] = cfg
        cases += r["cases"]
    if replay:
        with open(replay) as f:
            rk = json.load(f)["key"]
        cases = [c for c in cases if rk == case_key(c) or rk.startswith(case_key(c) + "|")]
    # one case per (project, distinct outcome): quick tier keeps every cyclic-project terminal and a
    # seed-chosen third of the acyclic ones
    if tier == "quick" and not replay:
        keep = []
        for c in cases:
            if c["cfg"] in ("Gen_Loader2.cfg", "Gen_Loader3S.cfg", "Gen_Loader3MS.cfg", "Gen_Loader4S.cfg") or rnd.random() < 0.5:
                keep.append(c)
        cases = keep
    if not cases:
        raise core.Undecided("no cases")

    # 2. forced-schedule runs (spec -> code) and natural runs; collect traces (code -> spec)
    stop = {"bad": 0}

    def do(c):
        if stop["bad"] >= 4:
            return c, None            # enough hard failures (hang/crash) to report; do not burn hours
        d = env.tmpdir("c15")
        entry, _ = loader.render_project(c, d)
        res = {}
        sp = os.path.join(d, "sched.txt")
        with open(sp, "w") as f:
            f.write("\n".join(loader.sched_lines(c)) + "\n")
        random_sched = c["cfg"].endswith("S.cfg")       # simulated behaviours: forced run only
        for mode in (("forced",) if random_sched else ("forced", "natural")):
            tr = os.path.join(d, mode + ".ndjson")
            out = os.path.join(d, "out_" + mode)
            o = env.compile(entry, out=out, trace=tr, schedule=sp if mode == "forced" else None,
                            timeout=20)
            if o["cls"] in ("HANG", "CRASH"):
                stop["bad"] += 1
            evs = loader.read_trace(tr)
            o["events"] = evs
            o["infeasible"] = [e for e in evs if e["ev"] == "Infeasible"]
            o["sched_done"] = any(e["ev"] == "SchedDone" for e in evs)
            res[mode] = o
        # acyclic: also run the program natively (with std/io) to see the dependencies' symbols
        if not c["hasCycle"] and not random_sched and not (set(c.get("missing", [])) & set(c.get("live", []))):
            d2 = env.tmpdir("c15r")
            entry2, expect = loader.render_project(c, d2, with_io=True)
            tr = os.path.join(d2, "run.ndjson")
            out = os.path.join(d2, "out_run")
            o = env.compile(entry2, out=out, trace=tr, timeout=60)
            o["events"] = loader.read_trace(tr)
            o["expect"] = str(expect)
            if o["cls"] == "ACCEPT":
                o["run"] = env.run_native(out)
            res["run"] = o
        return c, res

    results = core.pmap(do, cases, workers=12)

    traces = []
    trace_owner = []
    n_forced_ok = n_infeasible = n_runs = 0
    nontrivial = set()
    skipped = sum(1 for _, res in results if res is None)
    results = [(c, res) for c, res in results if res is not None]
    for c, res in results:
        key = case_key(c)
        nontrivial.add(json.dumps(c["imports"], sort_keys=True))
        for mode, o in res.items():
            n_runs += 1
            what = verdict_problem(c, o)
            if what:
                chk.fail(key + "|" + mode, what, {"case": c, "mode": mode, "compiler_output": o["text"][-1500:]})
            if mode == "forced":
                if o["infeasible"] or not o["sched_done"]:
                    n_infeasible += 1
                else:
                    n_forced_ok += 1
            if o["events"]:
                traces.append(loader.spec_events(c, o["events"], with_io=(mode == "run")))
                trace_owner.append((c, mode))
            elif o["cls"] not in ("CRASH", "HANG"):
                raise core.Undecided("no trace recorded for a run; hooks missing?")
        if "run" in res and res["run"]["cls"] == "ACCEPT":
            r = res["run"]["run"]
            if r["cls"] != "EXIT0" or r["out"].strip() != res["run"]["expect"]:
                chk.fail(key + "|run-output", "acyclic project built but printed %r (exit %s), expected %s: a "
                         "dependency's symbols are not what its importers see" % (r["out"], r["cls"],
                                                                                    res["run"]["expect"]),
                         {"case": c})
        chk.sample({"imports": c["imports"], "hasCycle": c["hasCycle"], "schedule": loader.sched_lines(c)[:12],
                    "forced": res["forced"]["cls"]}, cap=4)
    if n_forced_ok < 0.8 * len(results):
        raise core.Undecided("only %d of %d forced schedules were followed to the end by the real binary"
                             % (n_forced_ok, len(results)))

    n_ok, failures, st = loader.validate_traces(env, traces)
    for (i, acc, nxt, inv) in failures:
        c, mode = trace_owner[i]
        chk.fail(case_key(c) + "|trace|" + mode,
                 "recorded run is not a behaviour of ModuleLoader: %s; accepted prefix %d events, next event %s"
                 % (inv or "event not enabled in the spec state", acc, json.dumps(nxt)),
                 {"case": c, "mode": mode, "trace": traces[i]})

    chk.cov.update({
        "states": states, "transitions": trans, "traces_validated_against_impl": n_ok,
        "trace_events": st["events"], "cases": len(results), "runs": n_runs,
        "forced_schedules_followed": n_forced_ok, "forced_schedules_infeasible": n_infeasible,
        "evaluations": n_runs, "distinct_nontrivial": len(nontrivial),
        "rule": "TLC enumerates all digraphs on <=3 modules (plus ordered import lists and sampled 4-module "
                "graphs in the thorough tier) x all interleavings; one case per distinct terminal state; "
                "distinct = distinct import graphs",
        "cyclic_cases": sum(1 for c, _ in results if c["hasCycle"]),
        "acyclic_cases": sum(1 for c, _ in results if not c["hasCycle"]),
        "design_invariants": ["Acyclic", "CycleRejected", "DagBuilds", "ParsedOnce", "TopoOK"],
        "tlc_configs": cfgs, "cases_skipped_after_hard_failures": skipped,
    })
    chk.assumptions += ["gate hooks make every step between two gates of a goroutine atomic (turn taking)",
                        "events of lock-free operations are ordered with the operation by the hook mutex bracket"]
    return chk.finish()


def case_key(c):
    g = ";".join("%s>%s" % (loader.short(m), ",".join(loader.short(x) for x in c["imports"][m]))
                 for m in sorted(c["imports"]))
    return "C15|%s|blame=%s" % (g, ",".join(loader.short(x) for x in c["cycErrs"]))


def verdict_problem(c, o):
    if o["cls"] in ("CRASH", "HANG", "INCONSISTENT"):
        return "compiler %s on this project (exit %s)" % (o["cls"], o["rc"])
    if c["hasCycle"]:
        if o["cls"] != "REJECT":
            return "project with an import cycle was not rejected (class %s)" % o["cls"]
        if "circular import" not in o["text"]:
            return "cyclic project rejected without a circular-import diagnostic"
        return None
    gone = sorted(set(c.get("missing", [])) & set(c.get("live", [])))
    if gone:                     # a reachable import has no source file: a failure that names it, never a build
        if o["cls"] != "REJECT":
            return "project importing a module without a file was not rejected (class %s)" % o["cls"]
        if not all(any("module not found: " + m in e["msg"] for e in o["errors"]) for m in gone):
            return "missing modules %s are not all reported: %s" % (gone, [e["msg"] for e in o["errors"]][:4])
        return None
    if o["cls"] != "ACCEPT":
        return "acyclic project did not build: %s %s" % (o["cls"], [e["msg"] for e in o["errors"]][:3])
    return None
