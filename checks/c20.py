"""C20 — TOML configuration survives a write/parse round trip.

Spec: spec/toml/Toml.tla — writer and parser transcribed as operators over character sequences,
RoundTrips / CommentInert properties, value classes over the writable domain, an enumerator of
tables and an enumerator of arbitrary short contents.  Binding, spec -> code: every TLC-enumerated
table is instantiated, written with WriteTOMLFile and parsed with ParseTOMLFile (plain, with inline
comments from the writer, and with comment lines / blank lines / surrounding blanks / inline
comments inserted into the written file); every enumerated raw content is parsed under recover and
the result compared with the specification's parser (kinds, keys, sections, string payloads)."""
import json
import os
import subprocess

from vlib import core, tlc
from vlib.env import Env, VERIF

DRV = os.path.join(VERIF, "harness", "overlay", "tomldrv", "main.go")
TRIVIA = ["none", "wcomments", "comments", "blanklines", "blanks", "inline"]


def j(cs):
    return "".join(cs)


def run(tier, seed, replay=None):
    chk = core.Check("C20", tier, seed, "model_checking")
    env = Env()
    drv = env.build_overlay_driver("tomldrv", DRV)

    cfgs = ["Gen_TomlA.cfg", "Gen_TomlC.cfg"] + (["Gen_TomlB.cfg"] if tier == "thorough" else [])
    tables, states, trans = [], 0, 0
    for cfg in cfgs:
        r = tlc.require_ok(tlc.run(env.tmpdir("tlc"), "MC_Toml", cfg, ["toml"], workers=8, timeout=1800), cfg)
        states += r["distinct"]
        trans += r["states"]
        tables += r["cases"]
    rr = tlc.require_ok(tlc.run(env.tmpdir("tlc"), "MC_Toml", "Gen_TomlRaw.cfg", ["toml"], workers=8), "raw")
    states += rr["distinct"]
    trans += rr["states"]
    raws = rr["cases"]
    # values spelled like numbers: every content `k = <s>` with s of <= 4 characters over the characters of
    # inf / nan / exponents / signs / hex prefixes (the specification's ParseFloat against the real one)
    rn = tlc.require_ok(tlc.run(env.tmpdir("tlc"), "MC_Toml", "Gen_TomlRawNum.cfg", ["toml"], workers=8, timeout=1800), "rawnum")
    states += rn["distinct"]
    trans += rn["states"]
    raws = raws + rn["cases"]

    jobs, meta = [], {}
    n = 0
    for c in tables:
        secs = [{"name": j(s["name"]), "kvs": [{"key": j(k["key"]), "vk": k["kind"], "text": j(k["text"])}
                                                for k in s["kvs"]]} for s in c["secs"]]
        for tv in TRIVIA:
            n += 1
            jobs.append({"kind": "table", "id": n, "secs": secs, "trivia": tv})
            meta[n] = ("table", c, tv, secs)
    for c in raws:
        n += 1
        jobs.append({"kind": "raw", "id": n, "content": j(c["content"]) + "\n"})
        meta[n] = ("raw", c, None, None)
        if tier == "thorough":          # the same content as second line after a valid header
            n += 1
            jobs.append({"kind": "raw", "id": n, "content": "[build]\nx = 1\n" + j(c["content"])})
            meta[n] = ("raw2", c, None, None)
    if replay:
        with open(replay) as f:
            rp = json.load(f)["replay"]
        jobs = [rp["job"]]
        meta = {rp["job"]["id"]: ("replay", None, rp["job"].get("trivia"), rp["job"].get("secs"))}

    chunks = [jobs[i::16] for i in range(16)]
    chunks = [c for c in chunks if c]

    def exe(chunk):
        r = subprocess.run([drv], input="".join(json.dumps(x) + "\n" for x in chunk), capture_output=True, text=True,
                           timeout=600)
        out = {}
        for ln in r.stdout.split("\n"):
            if ln.strip():
                o = json.loads(ln)
                out[o["id"]] = o
        return chunk, r.returncode, out, r.stderr
    res = {}
    for chunk, rc, out, se in core.pmap(exe, chunks):
        res.update(out)
        for x in chunk:
            if x["id"] not in out:
                chk.fail("C20|driver-died", "the toml package killed the process on a case (rc %s): %s" % (rc, se[-300:]),
                         {"job": x})
                break

    model_raw_diff = []
    n_rt = n_raw = spec_pred_fail = model_drift = 0
    nontriv = set()
    plain_ok = {}
    for jid, o in res.items():
        kind, c, tv, secs = meta[jid]
        if kind == "table" and tv == "none":
            plain_ok[id(c)] = not (o["panic"] or o["err"] or not o["equal"])
            if plain_ok[id(c)] != c["roundtrips"]:
                model_drift += 1
    for jid, o in res.items():
        kind, c, tv, secs = meta[jid]
        job = next(x for x in jobs if x["id"] == jid) if replay else None
        if kind in ("table", "replay"):
            n_rt += 1
            if c is not None and not c["roundtrips"]:
                spec_pred_fail += 1
            shape = ";".join("%s{%s}" % (s["name"], ",".join("%s:%s" % (k["key"], k["vk"] + "/" + k["text"])
                                                                for k in s["kvs"])) for s in (secs or []))
            nontriv.add(shape)
            if o["panic"] or o["err"] or not o["equal"]:
                what = ("panic: " + o["panic"]) if o["panic"] else (o["err"] or "read back %s, wrote %s" % (o["got"], o["want"]))
                cls = sorted({"%s" % k["cls"] for s in c["secs"] for k in s["kvs"]}) if c else []
                only_trivia = c is not None and plain_ok.get(id(c), False)
                key = "C20|%s%s" % (("trivia:%s|" % tv) if only_trivia else "", failure_class(c, o))
                chk.fail(key, "table %s (trivia=%s) does not survive write+parse: %s" % (shape, tv, what[:300]),
                         {"job": {"kind": "table", "id": jid, "secs": secs, "trivia": tv}, "file": o.get("file"),
                          "classes": cls})
        else:
            n_raw += 1
            if kind == "raw" and not o["panic"]:
                # conformance of the specification's parser on arbitrary content (informational: the
                # property does not fix the meaning of malformed files, so this never raises an alarm)
                exp = c["parsed"]
                if bool(o["err"]) != exp["err"]:
                    model_raw_diff.append(j(c["content"]))
                elif not exp["err"]:
                    want = {j(s["name"]): {j(k["key"]): [k["kind"], j(k["text"]) if k["kind"] in ("str", "bool") else ""]
                                            for k in s["kvs"]} for s in exp["secs"]}
                    if json.loads(o["got"] or "{}") != want:
                        model_raw_diff.append(j(c["content"]))
            if o["panic"]:
                chk.fail("C20|raw|panic", "ParseTOMLFile crashed on content %r: %s" % (j(c["content"]), o["panic"][:200]),
                         {"job": {"kind": "raw", "id": jid, "content": j(c["content"]) + "\n"}})
    for x in jobs[:2] + jobs[-2:]:
        chk.sample(x)
    chk.cov.update({
        "states": states, "transitions": trans, "traces_validated_against_impl": len(res),
        "tables": len(tables), "round_trips_run": n_rt, "raw_contents": n_raw,
        "spec_predicts_roundtrip_failure_for": spec_pred_fail,
        "tables_where_model_and_code_disagree_on_roundtrip": model_drift,
        "raw_contents_where_spec_parser_and_code_disagree": len(model_raw_diff),
        "raw_disagreement_examples": model_raw_diff[:8],
        "evaluations": len(res), "distinct_nontrivial": len(nontriv) + len(raws),
        "rule": "TLC enumerates tables over 32 value classes (10 of them strings spelled like numbers: inf, NaN, 1e5, 0x1p1, +7, .5, 1_0 ...) (2 sections x <=1 key, 1 section x <=2 keys; all 7 "
                "sections x 2 classes in the thorough tier), all contents of <=3 characters over 11 character "
                "classes with 3 prefixes and all values of <=4 characters over 13 number-spelling characters; each table is replayed with 6 trivia variants; distinct = distinct tables + "
                "contents",
        "exhaustive": True,
    })
    chk.assumptions += ["float classes are represented by the text strconv.FormatFloat produces for the representative",
                        "reflect.DeepEqual on the parsed TOMLData is the observation of 'read back exactly'"]
    return chk.finish()


def failure_class(c, o):
    """Spec-level descriptor of a failing table: the value classes involved / empty-section shape."""
    if c is None:
        return "replay"
    if o["panic"]:
        return "panic"
    empties = sorted(j(s["name"]) for s in c["secs"] if not s["kvs"])
    cls = sorted({k["cls"] for s in c["secs"] for k in s["kvs"]})
    if "default" in empties:
        return "empty-default-section"
    return "classes:" + "+".join(cls) + ("|empty:" + "+".join(empties) if empties else "")
