#!/bin/bash
# verify_seed.sh <id>: confirm a seeded change independently: builds, existing tests pass,
# demonstration fails with the change and passes without it. Copies it to /verif/seeded/<id>/.
id=$1; W=/tmp/seed/$id; O=/tmp/seed/$id-out; D=/verif/seeded/$id
export GOFLAGS=-mod=mod GOPROXY=off GOSUMDB=off GOTOOLCHAIN=local
cd $W || exit 2
git diff > /tmp/seed/$id-cur.diff
if ! diff -q /tmp/seed/$id-cur.diff $O/patch.diff >/dev/null; then echo "NOTE: worktree diff differs from patch.diff; using worktree diff"; fi
go1.26 build ./... || { echo "BUILD FAILS"; exit 1; }
go1.26 test -vet=off -count=1 ./... > /tmp/seed/$id-tests.txt 2>&1; trc=$?
echo "tests rc=$trc fails=$(grep -c '^FAIL\|^--- FAIL' /tmp/seed/$id-tests.txt)"
demo=$O/demo.sh; [ -f $demo ] || demo=$O/demo/demo.sh
bash $demo $W > /tmp/seed/$id-with.txt 2>&1; with=$?
git diff > /tmp/seed/$id-v.diff; git apply -R /tmp/seed/$id-v.diff
bash $demo $W > /tmp/seed/$id-without.txt 2>&1; without=$?
git apply /tmp/seed/$id-v.diff
echo "demo with-change rc=$with   without-change rc=$without"
git status --short | head -5
if [ $trc -eq 0 ] && [ $with -ne 0 ] && [ $without -eq 0 ]; then
  mkdir -p $D; cp /tmp/seed/$id-cur.diff $D/patch.diff; cp -r $O/demo.sh $D/ 2>/dev/null; [ -d $O/demo ] && cp -r $O/demo $D/; cp $O/notes.md $D/ 2>/dev/null
  for f in $O/*.go $O/*.c; do [ -f "$f" ] && cp $f $D/; done
  tail -30 /tmp/seed/$id-with.txt > $D/demo-with-change.txt; tail -30 /tmp/seed/$id-without.txt > $D/demo-without-change.txt
  echo "CONFIRMED $id"
else echo "NOT CONFIRMED $id"; fi
