#!/bin/sh
# mutrun.sh <tree> <id> [tier] [seed]: run a check against another tree (e.g. a seeded worktree)
# without touching /verif/evidence or /verif/replays.
tree=$1; id=$2; tier=${3:-quick}; seed=${4:-1}
out=$(mktemp -d /tmp/mutrun_XXXX)
VERIF_REPO=$tree VERIF_EVIDENCE_DIR=$out VERIF_REPLAY_DIR=$out VERIF_SEED=$seed /verif/bin/vcheck $id --tier $tier > $out/log 2>&1
rc=$?
echo "rc=$rc tree=$tree id=$id tier=$tier seed=$seed viol=$(grep -c '^VIOLATION' $out/log) $(grep -m1 -A1 '^VIOLATION' $out/log | tail -1 | cut -c1-300)"
grep -E "^OK|^UNDECIDED|^KNOWN" $out/log | cut -c1-300
rm -rf $out
