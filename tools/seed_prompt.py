#!/usr/bin/env python3
"""Prints the prompt given to an independent sub-agent that seeds a property-breaking change.
Only the property text and the sandbox build recipe are included — nothing about /verif's checks."""
import json, sys
prop = sys.argv[1]
extra = sys.argv[2] if len(sys.argv) > 2 else ""
pid = sys.argv[3] if len(sys.argv) > 3 else prop          # directory tag (e.g. C01b for a second change to C01)
p = [json.loads(l) for l in open('/verif/properties.jsonl') if json.loads(l)['id'] == prop][0]
print(f"""You are helping evaluate a verification effort for the Ferret compiler (a statically typed language compiler written in Go, with a C runtime). Your job is to act as a *mutation author*: produce one realistic source change to Ferret that BREAKS the semantic property below, while the repository still compiles and its existing Go test suite still passes.

## The property ({prop}: {p['title']})
{p['statement']}

Quantified over: {p['quantifier']['text']}
Code the property is anchored in: {', '.join(p['anchors']['files'])}

## Where to work
- Your private git worktree of the repository is `/tmp/seed/{pid}` (detached HEAD). Work ONLY there. Do NOT read, list or touch `/verif` or `/repo`, and do not look at any other directory under /tmp/seed.
- Write your deliverables to `/tmp/seed/{pid}-out/`.

## Sandbox recipe (no network)
- In every shell call: `export GOFLAGS=-mod=mod GOPROXY=off GOSUMDB=off GOTOOLCHAIN=local` and use `go1.26` (the default `go` is too old).
- Build the compiler: `cd /tmp/seed/{pid} && go1.26 build -o /tmp/seed/{pid}-out/ferret .` (about 20 s cold).
- Existing test suite (must still pass with your change): `cd /tmp/seed/{pid} && go1.26 test -vet=off -count=1 ./...`
- To produce native executables the compiler needs a libs directory that the repo does not ship. Build one like this:
  `L=/tmp/seed/{pid}-out/libs; mkdir -p $L/std; cp ferret_libs/*.fer $L/; cp ferret_libs/std/*.fer $L/std/; mkdir -p /tmp/seed/{pid}-out/obj; for f in runtime/core/*.c runtime/libs/*.c; do gcc -std=c99 -O2 -w -fno-pie -I runtime/core -I runtime/libs -c $f -o /tmp/seed/{pid}-out/obj/$(basename $f .c).o; done; ar rcs $L/libferret_runtime.a /tmp/seed/{pid}-out/obj/*.o`
  then compile a program with `FERRET_LIBS_PATH=$L /tmp/seed/{pid}-out/ferret -o out prog.fer` (flags must precede the file; `-t` stops after type checking; `-target wasm -o x.wasm` selects the wasm back end; `-keep-gen` keeps gen/*.ssa). Import paths inside a project are `<projectDirName>/<file>`; the standard output library is `import "std/io";` with `io::Println(x);`.
- Language quirks: always put spaces around binary `-`; `let x: i32 = 5;`, `fn f(a: i32) -> i32 {{ ... }}`, structs `type P struct {{ .X: i32 }};` with literals `let p: P = {{ .X = 1 }};`, methods `fn (p: &'P) m() {{ }}`, dynamic arrays `let a: []i32 = [1,2,3]; append(&'a, 4);`.
- The runtime C files can also be compiled into a small C test driver directly with gcc (or clang with -fsanitize=address,undefined).

## What makes a good change
- It must look like a plausible slip or "optimisation" a maintainer could make (a few lines, in the anchored code or code it relies on), NOT sabotage such as `if input == "magic"`.
- It must need something SPECIFIC to manifest: a particular interleaving, a multi-step sequence of operations, an unusual input or boundary value, a particular syntactic position, or two cooperating sites that each look fine alone. A change that ordinary use or the simplest example would expose at once is not interesting.
- The repository must still build (`go1.26 build ./...`) and the existing test suite must pass unchanged (do not edit tests).
{extra}
## Deliverables (in `/tmp/seed/{pid}-out/`)
1. `patch.diff` — `git -C /tmp/seed/{pid} diff` of your change (source only; no build outputs).
2. A demonstration that FAILS with your change and PASSES without it: a small Ferret program/project plus a shell script `demo.sh` (takes the worktree path as $1, exits 0 when the property holds and 1 when it is violated), or a Go/C test file. Run it both ways yourself (use `git diff > p.diff; git apply -R p.diff; ...; git apply p.diff` — do NOT use `git stash`: the stash is shared between worktrees and other agents are working concurrently) and record the two outputs.
3. `notes.md` — what the change is, why it breaks the property, exactly what is needed for it to manifest, and the commands you ran (including the passing test-suite run with the change applied).
Before you finish: leave the worktree with your change applied (uncommitted), delete large build outputs you created inside the worktree (binaries, gen/ directories), and reply with a short summary (the files you wrote, what manifests the bug).""")
