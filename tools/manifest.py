#!/usr/bin/env python3
"""Regenerates MANIFEST.json from the table below (keeps it valid at all times)."""
import json, os, sys
ROOT = os.path.dirname(os.path.dirname(os.path.abspath(__file__)))
ALL = ["C%02d" % i for i in range(1, 21)]

CHECKS = {
 "C11": dict(
   technique="TLA+ judgment Lossless(S,T) (closed forms model-checked against brute force at small widths) + TLC-enumerated cases replayed into the real front end",
   category="model_checking",
   text="Exhaustive over the finite space the property quantifies over: all 289 ordered pairs of the 17 numeric types in 5 (quick) / 12 (thorough) assignment-like positions; each case is compiled by the real front end together with its explicit-cast control.",
   note="Trusts the IEEE-754 reading of f32..f256 (24/53/113/237-bit significands), the renderer of the positions and the front-end verdict observed through compiler.Compile (violations are re-confirmed through the CLI binary)."),
}

HOOK_COMMITS = []

def main():
    checks = []
    for pid in ALL:
        if pid not in CHECKS:
            continue
        c = CHECKS[pid]
        checks.append({
            "property_id": pid,
            "quick_cmd": "./bin/vcheck %s --tier quick" % pid,
            "thorough_cmd": "./bin/vcheck %s --tier thorough" % pid,
            "evidence_file": "evidence/%s.json" % pid,
            "replay_cmd_template": "./bin/vcheck %s --tier thorough --replay {path}" % pid,
            "engine": "vcheck",
            "technique": c["technique"],
            "level_claimed": {"category": c["category"], "text": c["text"], "design_ref": "DESIGN.md §5 " + pid},
            "level_note": c["note"],
        })
    na = [{"property_id": p, "reason": "not claimed yet: its TLA+ specification and conformance driver are still under construction (DESIGN.md §7 gives the order); no other technique is substituted"}
          for p in ALL if p not in CHECKS]
    m = {
        "version": 1,
        "setup_cmd": "./bin/vsetup",
        "hooks": {
            "guard": "verif",
            "enable": "go1.26 build -tags verif (vlib/env.py builds /repo's working tree with the tag on)",
            "baseline_off_cmd": "cd /repo && GOFLAGS=-mod=mod GOPROXY=off GOSUMDB=off GOTOOLCHAIN=local go1.26 test -vet=off -count=1 -timeout 25m ./...",
            "source_commits": HOOK_COMMITS,
            "add_only": True,
        },
        "engines": [{"name": "vcheck", "path": "bin/vcheck", "serves_properties": sorted(CHECKS),
                     "kind_free_text": "python orchestrator: TLC (spec/) enumerates cases or validates traces; the real compiler/runtime built from /repo's working tree answers"}],
        "checks": checks,
        "not_applicable": na,
        "notes": "One entry point: bin/vcheck <id> --tier quick|thorough [--replay f]. Exit 0 held / 1 VIOLATION / 2 undecided (tool failure, vacuity).",
    }
    with open(os.path.join(ROOT, "MANIFEST.json"), "w") as f:
        json.dump(m, f, indent=1, ensure_ascii=False)
        f.write("\n")

if __name__ == "__main__":
    main()
