#!/usr/bin/env python3
"""Regenerates MANIFEST.json from the table below (keeps it valid at all times)."""
import json, os, sys
ROOT = os.path.dirname(os.path.dirname(os.path.abspath(__file__)))
ALL = ["C%02d" % i for i in range(1, 21)]

CHECKS = {
 "C18": dict(
   technique="TLA+ Layout spec (soundness of a reported layout: components inside and pairwise disjoint, optional flag / result tag outside the payloads; no algorithm prescribed) with a TLC enumerator of type expressions; the layouts the real mir.DataLayout and the native emitter report for every enumerated type at pointer sizes 4 and 8 (fresh and session-shared DataLayout) validated by TLC (LayoutCheck); per sampled type a store-one-component / read-everything / copy program built for both targets and its recorded output validated by TLC against the FerretSem interpreter",
   category="model_checking",
   text="Type expressions: all 672 of depth 1 over leaf widths 1, 2, 4, 8, 16, 32 bytes, bool and pointer-sized str (structs of <= 3 fields, fixed arrays, optionals, results), 13895 of depth 2 over a reduced inner set (quick: 1500 sampled), 96 look-alike 5/6-field structs. Every reported layout (x 2 pointer sizes x fresh/shared) must be Sound and independent of the session; ~320 (quick) / ~3500 (thorough) programs write each component in turn and read all components, discriminants and neighbouring locals back, copy by binding, assignment, element copy (every index), by-value parameter and return value; results over arrays and structs observed for both outcomes; dynamic arrays of composite elements with copies of their own elements appended through a reference; natively and (where the wasm back end implements the type) as .wasm.",
   note="Alignment is advisory; programs a target does not accept are void for it (counted per reason); the optional flag offset and array stride are computed inline by the emitters as SizeOf(payload) / SizeOf(element), the driver reports the same expressions and the programs observe the emitters themselves; a binding self-test (a corrupted real layout must be rejected by the spec) runs on every invocation."),
 "C01": dict(
   technique="TLA+ FerretSem definitional interpreter (values, store, left-to-right evaluation, wrap-at-width integers over BigNum, by-value composites, write-through references, panics) validating by TLC the recorded stdout lines and termination of every compiled-and-run program (SemCheck); programs from a TLC enumerator of boundary expressions (ExprGen), a seeded type-directed generator and a feature corpus",
   category="translation_validation",
   text="Code -> spec trace validation: every program is compiled for the native target by the compiler built from the working tree, run, and its recorded lines + termination must be exactly Run(P) of the specification; a generated core-language program that is rejected or crashes the compiler is a violation. Quick: ~1200 boundary-expression cases (every arithmetic / comparison / negation / cast shape x 12 integer types x boundary operands, 4 per stratum; results consumed stored, by a comparison and by a widening cast; MIN / -1 and MIN % -1 each alone in a program) batched into programs, 240 random programs (incl. compound assignment, optionals, results with catch, function literals, methods, break / continue), the corpus and the witnesses of recorded findings; thorough: all ~9k expression cases and 3000 random programs.",
   note="Trusts the AST->source renderer, the line splitter and FerretSem as the formalisation of the property's semantics; division by zero, shifts and float formatting are not generated; random programs are interpreted by the specification itself, the generator carries no expectation."),
 "C02": dict(
   technique="TLA+ FerretSem / SemCheck: the native and the wasm record of each program are handed to TLC together, which decides agreement (same lines, same kind of termination) and names the record FerretSem prescribes; programs from the TLC boundary-expression enumerator, the seeded generator, the corpus, the C18 store / read-back programs for arrays of structs, float programs compared as numbers and text witnesses of recorded findings",
   category="translation_validation",
   text="Every program accepted by both targets is built natively and as .wasm (run under node with the shipped runtime.js); the two recorded behaviours must agree line by line and in termination kind (panic <-> thrown panic error; a trap on one side only is a disagreement). Quick ~275 programs (688 expression cases), thorough ~3000.",
   note="Floats are parsed on both sides and compared as float64 numbers; programs not accepted by both targets are void and counted; the wide-integer imports missing from runtime.js are one recorded finding class."),
 "C09": dict(
   technique="TLA+ RewriteCheck spec over FerretSem: for every (program, rewrite kind, site) TLC first decides on the specification that the rewrite preserves Run(P), then the real compiler's treatment (accept/reject) and the recorded outputs of both programs must agree; rewrites LitToCall, BindToLocal, LetToConst, WrapIfTrue generated by the harness with applicability predicates",
   category="translation_validation",
   text="Pairs (P, Rewrite(P)) over random programs, the corpus, TLC-enumerated boundary expressions with let-bound operands and deliberately rejected programs: same acceptance (apart from the documented constant-index rule) and identical output and termination. Quick ~930 pairs over 121 bases, thorough ~10k pairs.",
   note="A pair counts only when the specification itself evaluates both programs to the same behaviour (Preserved == same => treated /\\ agree); two classes where acceptance legitimately differs on the pinned tree are recorded findings."),
 "C13": dict(
   technique="TLA+ CompileSession spec (phase order, error gates, Result = no errors, artifact only from an error-free code generation, exit status vs printed diagnostics vs artifact) validating the hook trace + outside observation of every run; inputs from TLA+ enumerators (token mutations, byte-class strings, project layouts); crashes / hangs confirmed alone through the CLI",
   category="exploration",
   text="Quick: ~6900 inputs (token mutations incl. inserted backslash / quote-backslash-newline of the shipped programs, all strings of <= 3 characters over 17 byte classes (incl. backslash, tab, CR) alone and inside a function body, 256 two-import project layouts); thorough: 40000 mutations and 30000 strings of <= 4. Every run must terminate within 20 s without an internal crash and its trace must be a behaviour of CompileSession.",
   note="A crash is keyed by the first repository frame below the Go panic; every 4th input also runs code generation; in-process server results other than clean accept/reject are re-run through the CLI binary."),
 "C19": dict(
   technique="TLA+ SourceLayout spec: trivia as character-class sequences, the scanner position calculus and Shift; TLC-enumerated character sequences replayed into the real Position.Advance; every (program, token gap, trivia) variant compiled by the real front end and each diagnostic's recorded position validated by TLC against Shift of its original position",
   category="exploration",
   text="Corpus of 66 shipped, multi-error, missing-semicolon and unknown-character programs (accepted and rejected) x every token gap x 9 trivia kinds (quick: one variant per syntactic context plus every gap of the ill-formed programs, ~5300; thorough: 40000): same verdict, same diagnostics as a multiset, every diagnostic moved exactly with the inserted text (TLC-validated), and for accepted programs a sample is rebuilt and must print the same; all 1093 character-class sequences up to length 6 for the scanner.",
   note="Messages are compared with digits masked; a diagnostic exactly at the insertion point may stay or move; trivia is inserted immediately before a token."),
 "C03": dict(
   technique="TLA+ TypeRules spec: rule-local typing judgments for 15 rule classes (incl. scoping: a name used outside the block that declares it) enumerated over parameter spaces x 10 syntactic sites; every case rendered and compiled by the real front end, the well-typed members of each (rule, site) family being the controls",
   category="exploration",
   text="Exhaustive over the catalogue: 4114 cases (3029 ill-typed) covering out-of-scope uses (then-branch local in else / else-if, after a branch, loop, block, match arm, closure or catch handler; loop and catch variables after their construct; another function's local or parameter), mixed arithmetic over 6 numeric types x 4 operators, implicit narrowing incl. float-to-int, non-bool conditions / logical operands, argument count and type for functions, methods and closures, undefined / redeclared names, return values, optionals used as values, struct fields, fixed-array initialisers, calling a non-function, unhandled results (arity 0-2, 3 callee kinds, 4 uses), `!` from a non-result function; each at function, method, closure, if, else, while, for, match-arm, catch-handler and block sites.",
   note="Rule-local: only the injected rule's premise is judged by the specification (DESIGN.md C03 fallback); comparisons between different numeric types and optional-vs-value comparisons are not demanded because the property does not name them."),
 "C04": dict(
   technique="TLA+ IndexScenario spec (Kind = fixed): event machine over literal / const / named-const / let / reassigned / branch-dependent / loop-carried / negated / opaque indices with the prescribed observation per value of an opaque parameter; TLC emits one scenario per transition of the abstract state graph, including transitions that change the index after the last access; scenarios compiled and run by the real compiler (in-range scenarios batched)",
   category="model_checking",
   text="Transition coverage of the index-state graph for scenarios of <= 4 events over [3]i32 with indices in [-4, 3], stratified by spec-level class: an execution that indexes outside is rejected or panics; an accepted in-range scenario prints exactly the indexed elements (so a wrong element or a write to a neighbour is visible). Rejection with the documented constant-index rule is allowed and counted.",
   note="The opaque parameter reaches the function through an identity call; output comparison after every access is the observation of 'touches exactly the element'."),
 "C08": dict(
   technique="TLA+ IndexScenario spec (Kind = dyn, str): literal construction, append, element assignment, whole reassignment to a literal of another length (also conditionally), index expressions that append to the indexed array, indexing with literal / const / let / opaque / negative / 64-bit indices, len; prescribed observation (lines before the first out-of-range access, panic); one scenario per transition; compiled natively and run (in-range batched, panicking ones alone)",
   category="model_checking",
   text="Transition coverage for histories of <= 4 events over lengths 3..5 (dynamic arrays) and strings, indices in [-len-1, len]: every in-range scenario must be ACCEPTED and print the stored elements; an out-of-range access must be rejected or stop with a non-zero status, 'index out of bounds' on stderr and exactly the earlier lines delivered (stdout captured through a pipe).",
   note="Native back end only in this check (C02 compares the wasm back end); a rejection of an in-range scenario counts only with a bounds-class diagnostic."),
 "C12": dict(
   technique="TLA+ Visibility spec (AllowedSym / AllowedField) with the enumerated product symbol kind x case x access site x syntactic context x import shape; every case rendered as a multi-file project and compiled by the real front end",
   category="model_checking",
   text="Exhaustive over the stated product (1088 well-formed cases: functions, constants, variables, struct types and enum types (named through their variants) in 19 value / 6 type / 7 enum contexts, fields also on a struct that has methods named like its fields from own and foreign modules through direct, aliased and nested-directory imports; fields through receiver, peer parameter, free function, foreign module and receiver-shadowing bindings, 5 operations x 6 contexts): forbidden => not accepted, allowed => accepted.",
   note="An allowed access rejected without a visibility diagnostic (unsupported cross-module constructs such as module-level constants in MIR) is void and counted (47)."),
 "C10": dict(
   technique="TLA+ Literals spec over the BigNum library: LitValue / InRange judgment and an enumerator of boundary literals whose rendering is verified by TLC (LitValue(Text(v)) = v); each literal compiled alone by the real front end (ACCEPT <=> InRange) and accepted ones compiled natively in batches and run (printed value = LitValue)",
   category="exploration",
   text="Exhaustive over the boundary lattice: 12 integer types x (min-2..min+1, -1, 0, 1, max-1..max+2, 2^k-1/2^k/2^k+1 with both signs for every k up to the width; round constants n*2^k for the types of 64 bits and more) x 4 bases x 3 separator patterns, negative values also with the minus sign written apart = 10056 literals, in initialiser / argument / return positions; acceptance decided in both directions and the run-time value observed.",
   note="Decimal printing by the runtime is the observation of the value; '-0' and leading-zero decimals are not generated."),
 "C07": dict(
   technique="TLA+ Borrow spec: loans with forward taint (the property's 'still used later'), shared/mutable/copied/call-returned references, temporary borrows, blocks and twice-judged loop bodies, three-valued verdict and prescribed output; TLC explores the abstract loan-state graph and emits one program per transition; uses of a reference are additionally rendered inside seven once-executed syntactic contexts (if / else / else-if / else after else-if / match arm / default arm / nested blocks); function literals over borrowed places (created at one point, called at the end) with the whole program also rendered inside a branch; RefEscape spec for returned references; programs compiled (and legal ones run) by the real compiler",
   category="model_checking",
   text="Transition coverage of the loan-state graph for event sequences up to length 4 (quick, stratified by spec-level class) / 5 (thorough, ~90k programs) over 5 places and 2 references, each with and without an epilogue using every live reference: illegal => rejected, legal => accepted (borrow-class rejections count) and output equals the specification's; all 18 return-reference shapes.",
   note="Conflicts between different elements of one array are 'either'; a legal program rejected without a borrowing diagnostic is void; one known finding class (call-returned references) is excluded as a class."),
 "C06": dict(
   technique="TLA+ Mutability spec (Immutable/Mutates/MustReject with applicability of paths and forms); TLC enumerates the full product kind x path x form x context; every case and its mutable twin (control) compiled by the real front end",
   category="model_checking",
   text="Exhaustive over the stated finite product (13 immutable binding kinds incl. module-level const, the index of two-variable for loops over arrays, strings and with a `_` value variable, catch variable, &T parameter/receiver/local x 8 access paths x 8 mutation forms (incl. handing the place to a function value whose type promises &T while the bound function takes &'T) x 6 syntactic contexts = 1853 well-formed cases): control accepted and case not accepted.",
   note="The control (same program with a mutable root) isolates the mutability rule; cases whose control is rejected are void and counted (92: &' of a whole reference is not expressible)."),
 "C05": dict(
   technique="TLA+ ReturnPaths spec: body grammar, definitional interpreter and structural fall-through rule, proved equivalent by TLC on every enumerated body; bodies rendered as function/method/function literal (matches also with the default arm written first / in the middle, while loops also controlled by a local flag that is re-armed after the loop) and compiled by the real front end; accepted bodies executed and compared with the interpreter",
   category="model_checking",
   text="All 11840 bodies of the grammar up to depth 2 (if/else-if/else, match with and without default, while/for/while-true with break/continue, early returns): CanFallOff => rejected, in all three declaration forms (quick: one representative per control-flow signature); accepted bodies are run on every parameter vector and must print the value of the return statement the specification's path takes.",
   note="Each condition tests its own parameter so syntactic paths are feasible; rejection of bodies that cannot fall off is allowed (one-directional property) and counted."),
 "C20": dict(
   technique="TLA+ transcription of the TOML writer and parser over character sequences with RoundTrips/CommentInert; TLC-enumerated tables over 32 value classes and all short raw contents replayed into the real toml package (write, insert trivia, parse, DeepEqual; parse under recover)",
   category="model_checking",
   text="Exhaustive over the bounded table space (value classes covering strings with #,=,[ ], blanks, digit strings, ten strings spelled like numbers (inf, NaN, 1e5, 0x1p1, +7 ...), booleans, ints incl. MaxInt64, fractional/integral/tiny/huge floats; empty sections; all 7 writer sections in the thorough tier) x 6 trivia variants, and over all contents of <= 3 characters from 11 character classes with 3 prefixes plus all values of <= 4 characters over 13 number-spelling characters for the no-crash clause; the specification's own parser is additionally compared with the real parser on every raw content.",
   note="Float classes are identified with the text strconv.FormatFloat produces for their representative; reflect.DeepEqual is the observation."),
 "C16": dict(
   technique="TLA+ BigNum library (self-tested) + BigIntApi specification of every exported 128/256-bit operation; real calls of bigint.c on TLC-enumerated limb-boundary operand patterns and seeded random operands are logged and validated by TLC (division checked by q*b+r=a)",
   category="model_checking",
   text="Every logged call of the real C functions (by-value and _ptr entry points, signed and unsigned, 128 and 256 bit) must be the exact result modulo 2^N per the specification; operands cover all 2-limb patterns over six boundary classes and a 4-limb cover (quick: sample; thorough: all, ~227k calls).",
   note="Division by zero is not generated; the driver's printing of operands and the regrouping of hex into BigNum digits are trusted; built with ASan/UBSan."),
 "C17": dict(
   technique="TLA+ abstract map/list spec (RtColl) and the implementation-shaped RtMapImpl (chained hash table: resize at 3/4, relinking, literal pre-sizing; TLC checks that it refines the abstract map for every hash function over a small universe); TLC-enumerated transition histories and simulated long histories replayed into the real C runtime under ASan/UBSan; the logged replies and full projected state after every call validated by TLC (RtCollTrace)",
   category="model_checking",
   text="Every transition of the small abstract state graph and simulated 200-call histories crossing the rehash/capacity thresholds (built by single sets and by map literals of 11..40 entries) are replayed for all key flavours and element sizes; TLC checks every reply, size, per-key lookup and iteration (each entry exactly once) against the abstract state after every single call, and the logged table itself (every entry in the bucket its hash selects, no key twice); sanitizer reports decide the memory-safety clause.",
   note="Memory safety is observed by AddressSanitizer/UBSan/LeakSanitizer, not specified; the driver's key concretisation is trusted."),
 "C14": dict(
   technique="TLA+ ModuleLoader spec (global literal counter, stable-sorted diagnostic bag, cycle DFS path, Kahn order, modules without a source file blamed on the claiming import) simulated by TLC over projects x 3 schedules; every schedule forced through the hooked compiler's gates, every run trace-validated by TLC; runs the spec maps to the same Output must be byte-identical",
   category="model_checking",
   text="Design invariants exhaustively for all 3-module graphs x interleavings; conformance in both directions on TLC-drawn projects (<=4 modules) with forced and natural schedules (GOMAXPROCS 1/2/16), native IL and wasm bytes compared. Schedule dependences the specification itself exhibits are recorded as known findings per class.",
   note="Gate hooks give turn-taking atomicity between gates; events of lock-free operations are ordered by the hook mutex bracket; the number of diagnostics per erroneous line is abstracted."),
 "C15": dict(
   technique="TLA+ ModuleLoader spec model-checked by TLC over all import graphs x interleavings, with and without missing source files (Acyclic, CycleRejected, DagBuilds, ParsedOnce, TopoOK); TLC-generated schedules (one per distinct terminal state + -simulate random ones) forced through gates of the real compiler; every run's event trace validated against the spec (LoaderTrace)",
   category="model_checking",
   text="Exhaustive at the design level for all digraphs on <=3 modules (simulated 4-module projects and projects with missing files in both tiers, ordered import lists in the thorough tier); the real binary is driven through every emitted schedule and must give the prescribed verdict, and each DepEdge result it logs must equal the atomic AddDependency action of the spec in the current graph.",
   note="Turn-taking gates make each step between two gates atomic; a race inside a single gate-to-gate step (e.g. a non-atomic replacement of sync.Map.LoadOrStore) is not schedulable by the gates and is only covered by natural runs."),
 "C11": dict(
   technique="TLA+ judgment Lossless(S,T) (closed forms model-checked against brute force at small widths) + TLC-enumerated cases replayed into the real front end",
   category="model_checking",
   text="Exhaustive over the finite space the property quantifies over: all 289 ordered pairs of the 17 numeric types in 12 (quick) / 25 (thorough) assignment-like positions (incl. a return after a function literal with another return type, closure arguments, append, optional targets, the fallbacks of ?? and catch), in five positions also with the converted expression being x / y, x * y or f(x) instead of a variable; each case is compiled by the real front end together with its explicit-cast control.",
   note="Trusts the IEEE-754 reading of f32..f256 (24/53/113/237-bit significands), the renderer of the positions and the front-end verdict observed through compiler.Compile (violations are re-confirmed through the CLI binary)."),
}

HOOK_COMMITS = ["792825e", "63e059f"]

def main():
    checks = []
    for pid in ALL:
        if pid not in CHECKS:
            continue
        c = CHECKS[pid]
        checks.append({
            "property_id": pid,
            "quick_cmd": "./bin/vcheck %s --tier quick" % pid,
            "thorough_cmd": "./bin/vcheck %s --tier thorough" % pid,
            "evidence_file": "evidence/%s.json" % pid,
            "replay_cmd_template": "./bin/vcheck %s --tier thorough --replay {path}" % pid,
            "engine": "vcheck",
            "technique": c["technique"],
            "level_claimed": {"category": c["category"], "text": c["text"], "design_ref": "DESIGN.md §5 " + pid},
            "level_note": c["note"],
        })
    na = [{"property_id": p, "reason": "not claimed yet: its TLA+ specification and conformance driver are still under construction (DESIGN.md §7 gives the order); no other technique is substituted"}
          for p in ALL if p not in CHECKS]
    m = {
        "version": 1,
        "setup_cmd": "./bin/vsetup",
        "hooks": {
            "guard": "verif",
            "enable": "go1.26 build -tags verif (vlib/env.py builds /repo's working tree with the tag on)",
            "baseline_off_cmd": "cd /repo && GOFLAGS=-mod=mod GOPROXY=off GOSUMDB=off GOTOOLCHAIN=local go1.26 test -vet=off -count=1 -timeout 25m ./...",
            "source_commits": HOOK_COMMITS,
            "add_only": True,
        },
        "engines": [{"name": "vcheck", "path": "bin/vcheck", "serves_properties": sorted(CHECKS),
                     "kind_free_text": "python orchestrator: TLC (spec/) enumerates cases or validates traces; the real compiler/runtime built from /repo's working tree answers"}],
        "checks": checks,
        "not_applicable": na,
        "notes": "One entry point: bin/vcheck <id> --tier quick|thorough [--replay f]. Exit 0 held / 1 VIOLATION / 2 undecided (tool failure, vacuity).",
    }
    with open(os.path.join(ROOT, "MANIFEST.json"), "w") as f:
        json.dump(m, f, indent=1, ensure_ascii=False)
        f.write("\n")

if __name__ == "__main__":
    main()
