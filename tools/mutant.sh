#!/bin/bash
# mutant.sh <patch.diff> <id> [tier] [seed]: run a check against /repo's HEAD + patch in a scratch
# worktree (/tmp/mut/wt_<id>), never touching /repo's working tree. Removes the worktree afterwards.
patch=$1; id=$2; tier=${3:-quick}; seed=${4:-1}
wt=/tmp/mut/wt_${id}_$$
mkdir -p /tmp/mut
git -C /repo worktree add -q --detach $wt HEAD || exit 2
if ! git -C $wt apply $patch; then echo "patch does not apply to HEAD"; git -C /repo worktree remove --force $wt; exit 2; fi
/verif/tools/mutrun.sh $wt $id $tier $seed
git -C /repo worktree remove --force $wt
