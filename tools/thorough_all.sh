#!/bin/sh
# runs every thorough tier once, smallest first (used with `vp run`); prints one line per check
for i in 11 12 06 20 16 03 19 10 13 04 17 14 15 05 08 07 18 01 02 09; do
  /usr/bin/time -f "C$i %es" ./bin/vcheck C$i --tier thorough 2>&1 | grep -E "^OK|^VIOLATION|^UNDECIDED|^  key|^C[0-9]+ " | cut -c1-220
done
