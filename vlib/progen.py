"""Seeded generator of core-language Ferret programs as (AST for spec/lang/FerretSem.tla, source text).
Type-directed; loops terminate by construction; divisors are non-zero positive constants; every value
of interest is printed.  The generator decides nothing about expected behaviour: FerretSem does."""
import random

INTS = [("i8", True, 8), ("i16", True, 16), ("i32", True, 32), ("i64", True, 64), ("i128", True, 128), ("i256", True, 256),
        ("u8", False, 8), ("u16", False, 16), ("u32", False, 32), ("u64", False, 64), ("u128", False, 128), ("u256", False, 256)]
BYNAME = {t[0]: t for t in INTS}


def tyj(t):
    return {"s": t[1], "b": t[2]}


def rng(t):
    return (-(1 << (t[2] - 1)), (1 << (t[2] - 1)) - 1) if t[1] else (0, (1 << t[2]) - 1)


def lit_ast(t, v):
    return {"k": "int", "ty": tyj(t), "neg": v < 0, "d": [int(c) for c in str(abs(v))]}


class Gen:
    def __init__(self, seed, features=None):
        self.r = random.Random(seed)
        self.n = 0
        self.feat = features or {"wide": True, "struct": True, "farr": True, "darr": True, "refs": True, "calls": True,
                                 "match": True, "for": True, "cast": True, "byval": True}
        self.helpers_src = []
        self.funcs = {}
        self.types_src = []
        self.types = []
        self.structs = {}
        self.ids = set()

    def fresh(self, p="v"):
        self.n += 1
        if "%s%d" % (p, self.n) in BYNAME:          # i8, i16, i32 ... are type names
            self.n += 1
        return "%s%d" % (p, self.n)

    def pick_int(self):
        pool = INTS if self.feat["wide"] else [t for t in INTS if t[2] <= 64]
        # narrow types are where wrap-around is most visible
        w = [3 if t[2] <= 16 else 2 if t[2] <= 64 else 1 for t in pool]
        return self.r.choices(pool, w)[0]

    def boundary(self, t):
        lo, hi = rng(t)
        c = [lo, lo + 1, hi, hi - 1, 0, 1, 2, 3, 7, min(hi, 100), min(hi, 255), hi // 2, hi // 3]
        if t[1]:
            c += [-1, -2, -7, lo // 2]
        return self.r.choice(c)

    # opaque identity helper per type: keeps values away from the compile-time evaluator
    def ident_fn(self, t):
        name = "id_" + t[0]
        if name not in self.funcs:
            self.funcs[name] = {"params": ["x"], "ptys": [t[0]], "rty": t[0], "body": [{"k": "ret", "e": {"k": "var", "n": "x"}}]}
            self.helpers_src.append("fn %s(x: %s) -> %s {\n    return x;\n}" % (name, t[0], t[0]))
        return name


class Scope:
    def __init__(self, g):
        self.g = g
        self.vars = {}        # name -> ("int", t) | ("bool",) | ("struct", sname) | ("farr", t, n) | ("darr", t, len)
        self.frozen = set()   # names that must not be assigned (loop counters, borrowed places)

    def of(self, pred):
        return [n for n, ty in self.vars.items() if pred(ty)]


def gen_program(seed, size=12, features=None):
    g = Gen(seed, features)
    r = g.r
    sc = Scope(g)
    ast, src = [], []

    def emit(a, s, ind=1):
        ast.append(a)
        src.append("    " * ind + s)

    # ---- expressions -------------------------------------------------------------------------
    def int_atom(t, sc_, allow_lit=True):
        names = sc_.of(lambda ty: ty == ("int", t))
        if names and (not allow_lit or r.random() < 0.8):
            n = r.choice(names)
            return {"k": "var", "n": n}, n
        v = g.boundary(t)
        if v < 0:
            v = -v if -v <= rng(t)[1] else 1
        return lit_ast(t, v), str(v)

    def int_expr(t, sc_, depth):
        if depth <= 0 or r.random() < 0.3:
            return int_atom(t, sc_)
        k = r.random()
        if k < 0.6:
            op = r.choice(["+", "-", "*", "+", "-", "*", "/", "%"])
            la, ls = int_expr(t, sc_, depth - 1)
            if op in "/%":
                dv = r.choice([1, 2, 3, 5, 7, 10])
                ra, rs = lit_ast(t, dv), str(dv)
                # keep one non-literal operand
                if la["k"] == "int":
                    la, ls = int_atom(t, sc_, allow_lit=not sc_.of(lambda ty: ty == ("int", t)))
            else:
                ra, rs = int_expr(t, sc_, depth - 1)
                if la["k"] == "int" and ra["k"] == "int":
                    la, ls = int_atom(t, sc_, allow_lit=not sc_.of(lambda ty: ty == ("int", t)))
            if la["k"] == "int" and ra["k"] == "int":
                # literal (op) literal is a compile-time constant expression (C09 / C10 territory, with its own
                # overflow rule); here one operand goes through an opaque call so that the operation is executed
                f = g.ident_fn(t)
                la, ls = {"k": "call", "f": f, "args": [la]}, "%s(%s)" % (f, ls)
            return {"k": "bin", "op": op, "l": la, "r": ra, "ty": tyj(t)}, "(%s %s %s)" % (ls, op, rs)
        if k < 0.7 and t[1]:
            a, s = int_atom(t, sc_, allow_lit=False) if sc_.of(lambda ty: ty == ("int", t)) else (None, None)
            if a is not None:
                return {"k": "neg", "e": a, "ty": tyj(t)}, "(-%s)" % s
        if k < 0.85 and g.feat["cast"]:
            others = [n for n, ty in sc_.vars.items() if ty[0] == "int" and ty[1] != t]
            if others:
                n = r.choice(others)
                return {"k": "cast", "e": {"k": "var", "n": n}, "ty": tyj(t)}, "(%s as %s)" % (n, t[0])
        if k < 0.95 and g.feat["calls"]:
            f = g.ident_fn(t)
            a, s = int_expr(t, sc_, depth - 1)
            return {"k": "call", "f": f, "args": [a]}, "%s(%s)" % (f, s)
        return int_atom(t, sc_)

    def bool_expr(sc_, depth):
        ints = [ty[1] for ty in sc_.vars.values() if ty[0] == "int"]
        if not ints or (depth > 0 and r.random() < 0.25):
            bs = sc_.of(lambda ty: ty == ("bool",))
            if bs and r.random() < 0.7:
                n = r.choice(bs)
                if r.random() < 0.3:
                    return {"k": "not", "e": {"k": "var", "n": n}}, "(!%s)" % n
                return {"k": "var", "n": n}, n
            if not ints:
                v = r.random() < 0.5
                return {"k": "bool", "v": v}, "true" if v else "false"
        if depth > 0 and r.random() < 0.25:
            la, ls = bool_expr(sc_, depth - 1)
            ra, rs = bool_expr(sc_, depth - 1)
            op = r.choice(["&&", "||"])
            return {"k": "logic", "op": op, "l": la, "r": ra}, "(%s %s %s)" % (ls, op, rs)
        t = r.choice(ints)
        la, ls = int_expr(t, sc_, 1)
        ra, rs = int_expr(t, sc_, 1)
        if la["k"] == "int" and ra["k"] == "int":
            f = g.ident_fn(t)
            la, ls = {"k": "call", "f": f, "args": [la]}, "%s(%s)" % (f, ls)
        op = r.choice(["<", "<=", ">", ">=", "==", "!="])
        return {"k": "cmp", "op": op, "l": la, "r": ra}, "(%s %s %s)" % (ls, op, rs)

    # ---- statements --------------------------------------------------------------------------
    def new_int(sc_, out_a, out_s, ind):
        t = g.pick_int()
        n = g.fresh()
        if not sc_.of(lambda ty: ty == ("int", t)) or r.random() < 0.4:
            v = g.boundary(t)
            a, s = lit_ast(t, v), str(v)
            if r.random() < 0.5:
                f = g.ident_fn(t)
                a, s = {"k": "call", "f": f, "args": [a]}, "%s(%s)" % (f, s)
        else:
            a, s = int_expr(t, sc_, 2)
        out_a.append({"k": "let", "n": n, "e": a, "dty": t[0]})
        out_s.append("    " * ind + "let %s: %s = %s;" % (n, t[0], s))
        sc_.vars[n] = ("int", t)
        return n

    def print_var(sc_, out_a, out_s, ind, n=None):
        cands = sc_.of(lambda ty: ty[0] in ("int", "bool"))
        if n is None:
            if not cands:
                return
            n = r.choice(cands)
        out_a.append({"k": "print", "e": {"k": "var", "n": n}})
        out_s.append("    " * ind + "io::Println(%s);" % n)

    def V(n):
        return {"k": "var", "n": n}

    def ext_stmt(sc_, out_a, ind, depth):
        """Compound assignment, optionals, results with catch, function literals, methods, break / continue."""
        ints = [x for x in sc_.of(lambda ty: ty[0] == "int")]
        free = [x for x in ints if x not in sc_.frozen]
        kinds = []
        if free and g.feat.get("opasg", True):
            kinds += ["opasg", "opasg"]
        if g.feat.get("opt", True):
            kinds.append("opt")
        if g.feat.get("res", True) and ints:
            kinds.append("res")
        if g.feat.get("clo", True) and ints:
            kinds.append("clo")
        if g.feat.get("meth", True) and sc_.of(lambda ty: ty[0] == "struct"):
            kinds += ["meth", "meth"]
        if g.feat.get("brk", True) and depth > 0:
            kinds.append("brk")
        if g.feat.get("clo", True) and depth > 0 and ints:
            kinds.append("cloarr")
        if g.feat.get("for", True) and depth > 0:
            kinds.append("forstep")
        if g.feat.get("forin", True) and depth > 0 and sc_.of(lambda ty: ty[0] == "darr"):
            kinds.append("forin")
        if g.feat.get("enum", True) and depth > 0:
            kinds.append("enum")
        if g.feat.get("rec", True) and ints:
            kinds.append("rec")
        if not kinds:
            return False
        kind = r.choice(kinds)
        if kind == "opasg":
            # target: a variable, a struct field or an array element
            tg = [("var", n) for n in free]
            for n in sc_.of(lambda ty: ty[0] == "struct"):
                tg.append(("fld", n))
            for n in sc_.of(lambda ty: ty[0] in ("farr", "darr") and ty[1][2] <= 64):
                tg.append(("idx", n))       # compound assignment to a 128/256-bit element: recorded finding (witness in corpus)
            w, n = r.choice(tg)
            if w == "var":
                t, lv = sc_.vars[n][1], V(n)
            elif w == "fld":
                fi = r.randint(0, 1)
                t, lv = g.structs[sc_.vars[n][1]][fi], {"k": "field", "e": V(n), "f": "AB"[fi]}
            else:
                _, t, ln = sc_.vars[n]
                lv = {"k": "index", "e": V(n), "i": lit_ast(BYNAME["i32"], r.randint(-ln, ln - 1))}
            if r.random() < 0.3 and not (w == "idx" and sc_.vars[n][0] == "darr"):   # d[i]++ on a dynamic array: recorded finding
                out_a.append({"k": "opassign", "op": r.choice("+-"), "lv": lv, "e": lit_ast(t, 1), "ty": tyj(t), "incdec": True})
            else:
                op = r.choice(["+", "-", "*", "+", "-", "/", "%"])
                if op in "/%":
                    a = lit_ast(t, r.choice([1, 2, 3, 5, 7]))
                else:
                    a, _ = int_expr(t, sc_, 1)
                    if a["k"] == "int" and a["neg"]:
                        a = lit_ast(t, 3)
                out_a.append({"k": "opassign", "op": op, "lv": lv, "e": a, "ty": tyj(t)})
            out_a.append({"k": "print", "e": lv})
            return True
        if kind == "opt":
            opts = sc_.of(lambda ty: ty[0] == "opt")
            if not opts or r.random() < 0.4:
                t = g.pick_int()
                n = g.fresh("o")
                if r.random() < 0.4:
                    e = {"k": "none"}
                else:
                    a, _ = int_expr(t, sc_, 1)
                    e = {"k": "some", "e": a}
                out_a.append({"k": "let", "n": n, "dty": t[0] + "?", "e": e})
                sc_.vars[n] = ("opt", t)
            else:
                n = r.choice(opts)
                t = sc_.vars[n][1]
                if n not in sc_.frozen:
                    if r.random() < 0.35:
                        out_a.append({"k": "assign", "lv": V(n), "e": {"k": "none"}})
                    else:
                        a, _ = int_expr(t, sc_, 1)
                        out_a.append({"k": "assign", "lv": V(n), "e": {"k": "some", "e": a}})
            d = g.fresh("d")
            out_a.append({"k": "let", "n": d, "dty": t[0], "e": lit_ast(t, g.boundary(t))})
            sc_.vars[d] = ("int", t)
            if r.random() < 0.5:
                out_a.append({"k": "print", "e": {"k": "coal", "e": V(n), "d": V(d)}})
            else:
                m = g.fresh()
                out_a.append({"k": "let", "n": m, "dty": t[0], "e": {"k": "coal", "e": V(n), "d": V(d)}})
                sc_.vars[m] = ("int", t)
                out_a.append({"k": "print", "e": V(m)})
            if r.random() < 0.6:
                c = {"k": "isnone", "e": V(n), "neg": r.random() < 0.5}
                out_a.append({"k": "if", "c": c, "t": [{"k": "print", "e": V(d)}], "e": []})
            return True
        if kind == "res":
            n = r.choice(ints)
            t = sc_.vars[n][1]
            f = "chk_" + t[0]
            if f not in g.funcs:
                # err when the flag is set: the error carries x + 1, the ok value x
                g.funcs[f] = {"params": ["x", "bad"], "ptys": [t[0], "bool"], "rty": "%s ! %s" % (t[0], t[0]), "body": [
                    {"k": "if", "c": V("bad"), "t": [
                        {"k": "let", "n": "e", "dty": t[0], "e": {"k": "bin", "op": "+", "l": V("x"), "r": lit_ast(t, 1), "ty": tyj(t)}},
                        {"k": "reterr", "e": V("e")}], "e": []},
                    {"k": "retok", "e": V("x")}]}
            flag, _ = bool_expr(sc_, 1)
            d = g.fresh("d")
            out_a.append({"k": "let", "n": d, "dty": t[0], "e": lit_ast(t, g.boundary(t))})
            sc_.vars[d] = ("int", t)
            m = g.fresh()
            call = {"k": "call", "f": f, "args": [V(n), flag]}
            if r.random() < 0.5:
                e = {"k": "catch", "call": call, "n": "e", "h": [], "fb": V(d)}
            else:
                en = g.fresh("e")
                e = {"k": "catch", "call": call, "n": en, "h": [{"k": "print", "e": V(en)}], "fb": V(d), "ind": ind + 1}
            out_a.append({"k": "let", "n": m, "dty": t[0], "e": e})
            sc_.vars[m] = ("int", t)
            out_a.append({"k": "print", "e": V(m)})
            return True
        if kind == "clo":
            cap = r.choice(ints)
            t = sc_.vars[cap][1]
            cn = g.fresh("f")
            op = r.choice(["+", "-", "*"])
            body = [{"k": "let", "n": "q", "dty": t[0], "e": {"k": "bin", "op": op, "l": V(cap), "r": V("y"), "ty": tyj(t)}}]
            if r.random() < 0.5:
                body.append({"k": "print", "e": V("q")})
            body.append({"k": "ret", "e": V("q")})
            out_a.append({"k": "let", "n": cn, "dty": "", "e": {"k": "fnlit", "params": ["y"], "ptys": [t[0]], "rty": t[0], "body": body, "ind": ind + 1}})
            sc_.frozen.add(cap)          # a captured variable is never changed afterwards
            sc_.vars[cn] = ("clo", t)
            for _ in range(r.randint(1, 2)):
                others = [x for x in sc_.of(lambda ty: ty == ("int", t))]
                a = V(r.choice(others)) if others and r.random() < 0.7 else lit_ast(t, abs(g.boundary(t)) % 100)
                m = g.fresh()
                out_a.append({"k": "let", "n": m, "dty": t[0], "e": {"k": "callv", "f": cn, "args": [a]}})
                sc_.vars[m] = ("int", t)
                out_a.append({"k": "print", "e": V(m)})
            return True
        if kind == "meth":
            n = r.choice(sc_.of(lambda ty: ty[0] == "struct"))
            sname = sc_.vars[n][1]
            ft = g.structs[sname]
            bump, geta = sname + ".bump", sname + ".sum"
            if bump not in g.funcs:
                g.funcs[bump] = {"params": ["p", "d"], "ptys": ["&'" + sname, ft[0][0]], "body": [
                    {"k": "assign", "lv": {"k": "field", "e": V("p"), "f": "A"},
                     "e": {"k": "bin", "op": "+", "l": {"k": "field", "e": V("p"), "f": "A"}, "r": V("d"), "ty": tyj(ft[0])}}]}
                g.funcs[geta] = {"params": ["p"], "ptys": [sname], "rty": ft[1][0], "body": [
                    {"k": "assign", "lv": {"k": "field", "e": V("p"), "f": "B"},
                     "e": {"k": "bin", "op": "*", "l": {"k": "field", "e": V("p"), "f": "B"}, "r": lit_ast(ft[1], 2), "ty": tyj(ft[1])}},
                    {"k": "ret", "e": {"k": "field", "e": V("p"), "f": "B"}}]}
            if r.random() < 0.5:
                a, _ = int_expr(ft[0], sc_, 1)
                out_a.append({"k": "expr", "e": {"k": "call", "f": bump, "method": True, "args": [{"k": "addr", "e": V(n), "mut": True}, a]}})
            else:
                m = g.fresh()
                out_a.append({"k": "let", "n": m, "dty": ft[1][0], "e": {"k": "call", "f": geta, "method": True, "args": [V(n)]}})
                sc_.vars[m] = ("int", ft[1])
                out_a.append({"k": "print", "e": V(m)})
            for fi in range(2):
                out_a.append({"k": "print", "e": {"k": "field", "e": V(n), "f": "AB"[fi]}})
            return True
        if kind == "forstep":
            # for j in lo..hi:step with the step held in a variable (sometimes through a cast from another width); the
            # step variable stays assignable afterwards
            i32 = BYNAME["i32"]
            k = r.choice([1, 2, 3, -1, -2, 0, 5])
            a, b = r.randint(0, 3), r.randint(3, 8)
            lo, hi, st, j = g.fresh("lo"), g.fresh("hi"), g.fresh("st"), g.fresh("j")
            if k < 0:
                a, b = b, a
            out_a += [{"k": "let", "n": lo, "dty": "i32", "e": lit_ast(i32, a)}, {"k": "let", "n": hi, "dty": "i32", "e": lit_ast(i32, b)}]
            if r.random() < 0.5:
                # the cast may change the sign of the value: 4294967295 as i32 is -1, -4294967294 as i32 is 2
                t8, kv = r.choice([(BYNAME["i8"], k), (BYNAME["i16"], k), (BYNAME["i64"], k),
                                   (BYNAME["i64"], k + (1 << 32)), (BYNAME["i64"], k - (1 << 32)), (BYNAME["u32"], k % (1 << 32))])
                src = g.fresh("w")
                out_a.append({"k": "let", "n": src, "dty": t8[0], "e": lit_ast(t8, kv)})
                sc_.vars[src] = ("int", t8)
                step = {"k": "cast", "e": V(src), "ty": tyj(i32)}
            else:
                out_a.append({"k": "let", "n": st, "dty": "i32", "e": lit_ast(i32, k)})
                sc_.vars[st] = ("int", i32)
                step = V(st)
            inner = Scope(g)
            inner.vars = dict(sc_.vars)
            inner.vars[j] = ("int", i32)
            inner.frozen = set(sc_.frozen) | {j, lo, hi, st}
            ba, dummy = [{"k": "print", "e": V(j)}], []
            for _ in range(r.randint(0, 1)):
                stmt(inner, ba, dummy, ind + 1, depth - 1)
            out_a.append({"k": "forstep", "n": j, "ty": tyj(i32), "lo": V(lo), "hi": V(hi), "st": step, "b": ba})
            sc_.vars[lo] = ("int", i32)
            sc_.vars[hi] = ("int", i32)
            sc_.frozen |= {lo, hi}
            if step["k"] == "var" and r.random() < 0.5:        # the step changes AFTER the loop
                out_a.append({"k": "assign", "lv": V(st), "e": lit_ast(i32, -k if k else 1)})
            return True
        if kind == "cloarr":
            # function literals created in the iterations of a loop, each over a variable declared in the loop body,
            # kept in an array and called after the loop: every literal sees the variable of its own iteration
            t = sc_.vars[r.choice(ints)][1]
            fs, i, n = g.fresh("fs"), g.fresh("i"), r.randint(2, 3)
            i32 = BYNAME["i32"]
            out_a.append({"k": "let", "n": fs, "dty": "[]fn(y: %s) -> %s" % (t[0], t[0]), "e": {"k": "array", "es": []}})
            out_a.append({"k": "let", "n": i, "dty": "i32", "e": lit_ast(i32, 0)})
            kv = g.fresh("k")
            base, _ = int_atom(t, sc_)
            body = [{"k": "let", "n": kv, "dty": t[0], "e": {"k": "bin", "op": "+", "l": base, "ty": tyj(t),
                                                              "r": {"k": "cast", "e": V(i), "ty": tyj(t)} if t != i32 else V(i)}},
                    {"k": "append", "lv": V(fs), "e": {"k": "fnlit", "params": ["y"], "ptys": [t[0]], "rty": t[0], "ind": ind + 2, "body": [
                        {"k": "ret", "e": {"k": "bin", "op": r.choice(["+", "-", "*"]), "l": V(kv), "r": V("y"), "ty": tyj(t)}}]}},
                    {"k": "assign", "lv": V(i), "e": {"k": "bin", "op": "+", "l": V(i), "r": lit_ast(i32, 1), "ty": tyj(i32)}}]
            out_a.append({"k": "while", "c": {"k": "cmp", "op": "<", "l": V(i), "r": lit_ast(i32, n)}, "b": body})
            sc_.vars[i] = ("int", i32)
            sc_.frozen.add(i)
            for j in r.sample(range(n), n):
                gname, m = g.fresh("g"), g.fresh()
                out_a.append({"k": "let", "n": gname, "dty": "", "e": {"k": "index", "e": V(fs), "i": lit_ast(i32, j)}})
                out_a.append({"k": "let", "n": m, "dty": t[0], "e": {"k": "callv", "f": gname, "args": [lit_ast(t, r.randint(1, 9))]}})
                sc_.vars[m] = ("int", t)
                out_a.append({"k": "print", "e": V(m)})
            return True
        if kind == "forin":
            n = r.choice(sc_.of(lambda ty: ty[0] == "darr"))
            _, t, ln = sc_.vars[n]
            x, i = g.fresh("x"), (g.fresh("k") if r.random() < 0.5 else "")
            inner = Scope(g)
            inner.vars = dict(sc_.vars)
            inner.vars[x] = ("int", t)
            inner.frozen = set(sc_.frozen) | {x, n}
            if i:
                inner.vars[i] = ("int", BYNAME["i32"])
                inner.frozen.add(i)
            del inner.vars[n]               # the array is not touched while it is iterated
            ba = [{"k": "print", "e": V(x)}] + ([{"k": "print", "e": V(i)}] if i and r.random() < 0.5 else [])
            dummy = []
            for _ in range(r.randint(0, 2)):
                stmt(inner, ba, dummy, ind + 1, depth - 1)
            out_a.append({"k": "forin", "n": x, "i": i, "e": V(n), "b": ba})
            return True
        if kind == "enum":
            en = "E%d" % len(g.types)
            names = ["A", "B", "C"][:r.randint(2, 3)]
            g.types.append({"name": en, "enum": names})

            def lit(k):
                d = lit_ast(BYNAME["i32"], k)
                d["enum"] = "%s::%s" % (en, names[k])
                return d
            ev = g.fresh("e")
            pick = r.randrange(len(names))
            out_a.append({"k": "let", "n": ev, "dty": en, "e": lit(pick)})
            arms = []
            for k in r.sample(range(len(names)), r.randint(1, len(names))):
                inner = Scope(g)
                inner.vars = dict(sc_.vars)
                inner.frozen = set(sc_.frozen)
                ba, dummy = [{"k": "print", "e": lit_ast(BYNAME["i32"], 100 + k)}], []
                stmt(inner, ba, dummy, ind + 2, depth - 1)
                arms.append({"dflt": False, "p": lit(k), "b": ba})
            inner = Scope(g)
            inner.vars = dict(sc_.vars)
            inner.frozen = set(sc_.frozen)
            ba, dummy = [{"k": "print", "e": lit_ast(BYNAME["i32"], 999)}], []
            stmt(inner, ba, dummy, ind + 2, depth - 1)
            arms.append({"dflt": True, "p": lit(0), "b": ba})
            out_a.append({"k": "match", "e": V(ev), "arms": arms})
            if r.random() < 0.5 and len(names) > 1:          # reassign and test with ==
                other = (pick + 1) % len(names)
                out_a.append({"k": "assign", "lv": V(ev), "e": lit(other)})
                b = g.fresh("b")
                out_a.append({"k": "let", "n": b, "dty": "bool", "e": {"k": "cmp", "op": r.choice(["==", "!="]), "l": V(ev), "r": lit(pick)}})
                sc_.vars[b] = ("bool",)
                out_a.append({"k": "print", "e": V(b)})
            return True
        if kind == "rec":
            n = r.choice(ints)
            t = sc_.vars[n][1]
            f = "sumdown_" + t[0]
            if f not in g.funcs:
                # sumdown(x, d) = x + sumdown(x - 1, d - 1) while d > 0 : depth-bounded recursion, wraps like any addition
                g.funcs[f] = {"params": ["x", "d"], "ptys": [t[0], "i32"], "rty": t[0], "body": [
                    {"k": "if", "c": {"k": "cmp", "op": "<=", "l": V("d"), "r": lit_ast(BYNAME["i32"], 0)}, "t": [{"k": "ret", "e": V("x")}], "e": []},
                    {"k": "ret", "e": {"k": "bin", "op": "+", "l": V("x"), "ty": tyj(t),
                                       "r": {"k": "call", "f": f, "args": [{"k": "bin", "op": "-", "l": V("x"), "r": lit_ast(t, 1), "ty": tyj(t)},
                                                                          {"k": "bin", "op": "-", "l": V("d"), "r": lit_ast(BYNAME["i32"], 1), "ty": tyj(BYNAME["i32"])}]}}}]}
            m = g.fresh()
            out_a.append({"k": "let", "n": m, "dty": t[0], "e": {"k": "call", "f": f, "args": [V(n), lit_ast(BYNAME["i32"], r.randint(0, 6))]}})
            sc_.vars[m] = ("int", t)
            out_a.append({"k": "print", "e": V(m)})
            return True
        if kind == "brk":
            # let i = 0; while i < N { i = i + 1; if c { continue / break; } body }
            i = g.fresh("i")
            t = BYNAME["i32"]
            lim = r.randint(2, 5)
            out_a.append({"k": "let", "n": i, "e": lit_ast(t, 0), "dty": "i32"})
            inner = Scope(g)
            inner.vars = dict(sc_.vars)
            inner.vars[i] = ("int", t)
            inner.frozen = set(sc_.frozen) | {i}
            ba = [{"k": "assign", "lv": V(i), "e": {"k": "bin", "op": "+", "l": V(i), "r": lit_ast(t, 1), "ty": tyj(t)}}]
            cut = {"k": "cmp", "op": r.choice(["==", ">", ">="]), "l": V(i), "r": lit_ast(t, r.randint(1, lim))}
            ba.append({"k": "if", "c": cut, "t": [{"k": r.choice(["break", "continue"])}], "e": []})
            ba.append({"k": "print", "e": V(i)})
            dummy = []
            for _ in range(r.randint(0, 2)):
                stmt(inner, ba, dummy, ind + 1, depth - 1)
            out_a.append({"k": "while", "c": {"k": "cmp", "op": "<", "l": V(i), "r": lit_ast(t, lim)}, "b": ba})
            sc_.vars[i] = ("int", t)
            sc_.frozen.add(i)
            return True
        return False

    def stmt(sc_, out_a, out_s, ind, depth):
        if g.feat.get("ext", True) and r.random() < 0.24 and ext_stmt(sc_, out_a, ind, depth):
            return
        k = r.random()
        pad = "    " * ind
        ints = sc_.of(lambda ty: ty[0] == "int")
        if k < 0.22 or not ints:
            n = new_int(sc_, out_a, out_s, ind)
            if r.random() < 0.6:
                print_var(sc_, out_a, out_s, ind, n)
            return
        if k < 0.34:
            n = r.choice([x for x in ints if x not in sc_.frozen] or ints)
            if n in sc_.frozen:
                return
            t = sc_.vars[n][1]
            a, s = int_expr(t, sc_, 2)
            out_a.append({"k": "assign", "lv": {"k": "var", "n": n}, "e": a})
            out_s.append(pad + "%s = %s;" % (n, s))
            print_var(sc_, out_a, out_s, ind, n)
            return
        if k < 0.42:
            n = g.fresh("b")
            a, s = bool_expr(sc_, 1)
            if r.random() < 0.3:
                # && / || evaluate both operands: the right one prints
                if "audit" not in g.funcs:
                    g.funcs["audit"] = {"params": ["x", "r"], "ptys": ["i32", "bool"], "rty": "bool",
                                        "body": [{"k": "print", "e": {"k": "var", "n": "x"}}, {"k": "ret", "e": {"k": "var", "n": "r"}}]}
                left = a if r.random() < 0.5 else {"k": "bool", "v": r.random() < 0.5}
                call = {"k": "call", "f": "audit", "args": [lit_ast(BYNAME["i32"], r.randint(0, 99)), {"k": "bool", "v": r.random() < 0.5}]}
                a = {"k": "logic", "op": r.choice(["&&", "||"]), "l": left, "r": call}
            out_a.append({"k": "let", "n": n, "e": a, "dty": "bool"})
            out_s.append(pad + "let %s: bool = %s;" % (n, s))
            sc_.vars[n] = ("bool",)
            print_var(sc_, out_a, out_s, ind, n)
            return
        if k < 0.54 and depth > 0:
            c, cs = bool_expr(sc_, 1)
            ta, ts, ea, es = [], [], [], []
            inner = Scope(g)
            inner.vars = dict(sc_.vars)
            inner.frozen = set(sc_.frozen)
            for _ in range(r.randint(1, 2)):
                stmt(inner, ta, ts, ind + 1, depth - 1)
            inner2 = Scope(g)
            inner2.vars = dict(sc_.vars)
            inner2.frozen = set(sc_.frozen)
            for _ in range(r.randint(0, 2)):
                stmt(inner2, ea, es, ind + 1, depth - 1)
            out_a.append({"k": "if", "c": c, "t": ta, "e": ea})
            out_s.append(pad + "if %s {" % cs)
            out_s.extend(ts)
            if es:
                out_s.append(pad + "} else {")
                out_s.extend(es)
            out_s.append(pad + "}")
            return
        if k < 0.62 and depth > 0:
            # counter loop:  let i: i32 = 0; while i < N { body; i = i + 1; }
            i = g.fresh("i")
            t = BYNAME["i32"]
            lim = r.randint(1, 4)
            out_a.append({"k": "let", "n": i, "e": lit_ast(t, 0), "dty": "i32"})
            out_s.append(pad + "let %s: i32 = 0;" % i)
            inner = Scope(g)
            inner.vars = dict(sc_.vars)
            inner.vars[i] = ("int", t)
            inner.frozen = set(sc_.frozen) | {i}
            ba, bs = [], []
            for _ in range(r.randint(1, 3)):
                stmt(inner, ba, bs, ind + 1, depth - 1)
            ba.append({"k": "assign", "lv": {"k": "var", "n": i},
                       "e": {"k": "bin", "op": "+", "l": {"k": "var", "n": i}, "r": lit_ast(t, 1), "ty": tyj(t)}})
            bs.append("    " * (ind + 1) + "%s = %s + 1;" % (i, i))
            out_a.append({"k": "while", "c": {"k": "cmp", "op": "<", "l": {"k": "var", "n": i}, "r": lit_ast(t, lim)}, "b": ba})
            out_s.append(pad + "while %s < %d {" % (i, lim))
            out_s.extend(bs)
            out_s.append(pad + "}")
            sc_.vars[i] = ("int", t)
            sc_.frozen.add(i)
            return
        if k < 0.68 and depth > 0 and g.feat["for"]:
            t = BYNAME["i32"]
            lo, hi = g.fresh("lo"), g.fresh("hi")
            a, b = r.randint(0, 2), r.randint(0, 4)
            j = g.fresh("j")
            out_a += [{"k": "let", "n": lo, "e": lit_ast(t, a), "dty": "i32"}, {"k": "let", "n": hi, "e": lit_ast(t, b), "dty": "i32"}]
            out_s += [pad + "let %s: i32 = %d;" % (lo, a), pad + "let %s: i32 = %d;" % (hi, b)]
            inner = Scope(g)
            inner.vars = dict(sc_.vars)
            inner.vars[j] = ("int", t)
            inner.frozen = set(sc_.frozen) | {j, lo, hi}
            ba, bs = [{"k": "print", "e": {"k": "var", "n": j}}], ["    " * (ind + 1) + "io::Println(%s);" % j]
            for _ in range(r.randint(0, 2)):
                stmt(inner, ba, bs, ind + 1, depth - 1)
            out_a.append({"k": "for", "n": j, "ty": tyj(t), "lo": {"k": "var", "n": lo}, "hi": {"k": "var", "n": hi}, "b": ba})
            out_s.append(pad + "for %s in %s..%s {" % (j, lo, hi))
            out_s.extend(bs)
            out_s.append(pad + "}")
            sc_.vars[lo] = ("int", t)
            sc_.vars[hi] = ("int", t)
            sc_.frozen |= {lo, hi}
            return
        if k < 0.74 and depth > 0 and g.feat["match"]:
            cands = [n for n in ints if sc_.vars[n][1][2] <= 64]
            if not cands:
                return
            n = r.choice(cands)
            t = sc_.vars[n][1]
            vals = sorted({abs(g.boundary(t)) % 50 for _ in range(3)})[:2]
            arms, ss = [], [pad + "match %s {" % n]
            for v in vals:
                inner = Scope(g)
                inner.vars = dict(sc_.vars)
                inner.frozen = set(sc_.frozen)
                ba, bs = [], []
                stmt(inner, ba, bs, ind + 2, depth - 1)
                arms.append({"dflt": False, "p": lit_ast(t, v), "b": ba})
                ss += [pad + "    %d => {" % v] + bs + [pad + "    }"]
            inner = Scope(g)
            inner.vars = dict(sc_.vars)
            inner.frozen = set(sc_.frozen)
            ba, bs = [], []
            stmt(inner, ba, bs, ind + 2, depth - 1)
            arms.append({"dflt": True, "p": lit_ast(t, 0), "b": ba})
            ss += [pad + "    _ => {"] + bs + [pad + "    }", pad + "}"]
            out_a.append({"k": "match", "e": {"k": "var", "n": n}, "arms": arms})
            out_s.extend(ss)
            return
        if k < 0.82 and g.feat["struct"]:
            struct_stmt(sc_, out_a, out_s, ind)
            return
        if k < 0.90 and (g.feat["farr"] or g.feat["darr"]):
            array_stmt(sc_, out_a, out_s, ind)
            return
        if k < 0.96 and g.feat["refs"]:
            ref_stmt(sc_, out_a, out_s, ind)
            return
        print_var(sc_, out_a, out_s, ind)

    def struct_stmt(sc_, out_a, out_s, ind):
        pad = "    " * ind
        ss = sc_.of(lambda ty: ty[0] == "struct")
        if not ss or r.random() < 0.4:
            sname = g.fresh("S")
            ft = [g.pick_int(), g.pick_int()]
            g.structs[sname] = ft
            g.types_src.append("type %s struct { .A: %s, .B: %s };" % (sname, ft[0][0], ft[1][0]))
            g.types.append({"name": sname, "fields": [{"n": "A", "ty": ft[0][0]}, {"n": "B", "ty": ft[1][0]}]})
            n = g.fresh("s")
            fa, fs_ = [], []
            for fn_, t in zip("AB", ft):
                a, s = int_expr(t, sc_, 1)
                fa.append({"n": fn_, "e": a})
                fs_.append(".%s = %s" % (fn_, s))
            out_a.append({"k": "let", "n": n, "e": {"k": "struct", "fs": fa}, "dty": sname})
            out_s.append(pad + "let %s: %s = { %s };" % (n, sname, ", ".join(fs_)))
            sc_.vars[n] = ("struct", sname)
            return
        n = r.choice(ss)
        sname = sc_.vars[n][1]
        ft = g.structs[sname]
        k = r.random()
        if k < 0.35:
            fi = r.randint(0, 1)
            a, s = int_expr(ft[fi], sc_, 1)
            out_a.append({"k": "assign", "lv": {"k": "field", "e": {"k": "var", "n": n}, "f": "AB"[fi]}, "e": a})
            out_s.append(pad + "%s.%s = %s;" % (n, "AB"[fi], s))
        elif k < 0.6:
            m = g.fresh("s")
            out_a.append({"k": "let", "n": m, "e": {"k": "var", "n": n}, "dty": sname})
            out_s.append(pad + "let %s: %s = %s;" % (m, sname, n))
            sc_.vars[m] = ("struct", sname)
            fi = r.randint(0, 1)
            a, s = int_expr(ft[fi], sc_, 1)
            out_a.append({"k": "assign", "lv": {"k": "field", "e": {"k": "var", "n": m}, "f": "AB"[fi]}, "e": a})
            out_s.append(pad + "%s.%s = %s;" % (m, "AB"[fi], s))
        elif k < 0.7:
            # whole-value assignment of a literal that reads the target: the right-hand side is evaluated first
            a, s_ = int_expr(ft[0], sc_, 1)
            fa = [{"n": "A", "e": a},
                  {"n": "B", "e": {"k": "cast", "e": {"k": "field", "e": {"k": "var", "n": n}, "f": "A"}, "ty": tyj(ft[1])}
                   if ft[0] != ft[1] else {"k": "field", "e": {"k": "var", "n": n}, "f": "A"}}]
            out_a.append({"k": "assign", "lv": {"k": "var", "n": n}, "e": {"k": "struct", "fs": fa}})
            out_s.append("")
        elif k < 0.8 and g.feat["byval"]:
            # by-value parameter: the callee changes its copy and returns a field sum
            f = "sum_" + sname
            t0 = ft[0]
            if f not in g.funcs:
                g.funcs[f] = {"params": ["p"], "ptys": [sname], "rty": t0[0], "body": [
                    {"k": "assign", "lv": {"k": "field", "e": {"k": "var", "n": "p"}, "f": "A"},
                     "e": {"k": "bin", "op": "+", "l": {"k": "field", "e": {"k": "var", "n": "p"}, "f": "A"}, "r": lit_ast(t0, 1), "ty": tyj(t0)}},
                    {"k": "ret", "e": {"k": "field", "e": {"k": "var", "n": "p"}, "f": "A"}}]}
                g.helpers_src.append("fn %s(p: %s) -> %s {\n    p.A = p.A + 1;\n    return p.A;\n}" % (f, sname, t0[0]))
            m = g.fresh()
            out_a.append({"k": "let", "n": m, "e": {"k": "call", "f": f, "args": [{"k": "var", "n": n}]}, "dty": t0[0]})
            out_s.append(pad + "let %s: %s = %s(%s);" % (m, t0[0], f, n))
            sc_.vars[m] = ("int", t0)
            print_var(sc_, out_a, out_s, ind, m)
        for fi in range(2):
            out_a.append({"k": "print", "e": {"k": "field", "e": {"k": "var", "n": n}, "f": "AB"[fi]}})
            out_s.append(pad + "io::Println(%s.%s);" % (n, "AB"[fi]))

    def array_stmt(sc_, out_a, out_s, ind):
        pad = "    " * ind
        arrs = sc_.of(lambda ty: ty[0] in ("farr", "darr"))
        if not arrs or r.random() < 0.35:
            t = g.pick_int()
            n = g.fresh("a")
            ln = r.randint(1, 4)
            es_a, es_s = [], []
            for _ in range(ln):
                v = g.boundary(t)
                es_a.append(lit_ast(t, v))
                es_s.append(str(v))
            kind = "farr" if (g.feat["farr"] and (not g.feat["darr"] or r.random() < 0.5)) else "darr"
            out_a.append({"k": "let", "n": n, "e": {"k": "array", "es": es_a}, "dty": ("[%d]" % ln if kind == "farr" else "[]") + t[0]})
            out_s.append(pad + "let %s: %s%s = [%s];" % (n, "[%d]" % ln if kind == "farr" else "[]", t[0], ", ".join(es_s)))
            sc_.vars[n] = (kind, t, ln)
            return
        n = r.choice(arrs)
        kind, t, ln = sc_.vars[n]
        k = r.random()
        idx = r.randint(-ln, ln - 1)
        if k < 0.3:
            a, s = int_expr(t, sc_, 1)
            out_a.append({"k": "assign", "lv": {"k": "index", "e": {"k": "var", "n": n}, "i": lit_ast(BYNAME["i32"], idx)}, "e": a})
            out_s.append(pad + "%s[%d] = %s;" % (n, idx, s))
        elif k < 0.5 and kind == "darr":
            a, s = int_expr(t, sc_, 1)
            out_a.append({"k": "append", "lv": {"k": "var", "n": n}, "e": a})
            out_s.append(pad + "append(&'%s, %s);" % (n, s))
            sc_.vars[n] = (kind, t, ln + 1)
            ln += 1
            out_a.append({"k": "print", "e": {"k": "len", "e": {"k": "var", "n": n}}})
            out_s.append(pad + "io::Println(len(%s));" % n)
        elif k < 0.58 and kind == "farr" and ln >= 2:
            # a = [a[ln-1], ..., a[0]]: every element is read before any is stored
            out_a.append({"k": "assign", "lv": {"k": "var", "n": n},
                          "e": {"k": "array", "es": [{"k": "index", "e": {"k": "var", "n": n}, "i": lit_ast(BYNAME["i32"], ln - 1 - q)} for q in range(ln)]}})
            out_s.append("")
        elif k < 0.65 and kind == "farr":
            m = g.fresh("a")
            out_a.append({"k": "let", "n": m, "e": {"k": "var", "n": n}, "dty": "[%d]%s" % (ln, t[0])})
            out_s.append(pad + "let %s: [%d]%s = %s;" % (m, ln, t[0], n))
            sc_.vars[m] = (kind, t, ln)
            a, s = int_expr(t, sc_, 1)
            out_a.append({"k": "assign", "lv": {"k": "index", "e": {"k": "var", "n": m}, "i": lit_ast(BYNAME["i32"], 0)}, "e": a})
            out_s.append(pad + "%s[0] = %s;" % (m, s))
        for i in sorted({idx, ln - 1, -ln}):
            out_a.append({"k": "print", "e": {"k": "index", "e": {"k": "var", "n": n}, "i": lit_ast(BYNAME["i32"], i)}})
            out_s.append(pad + "io::Println(%s[%d]);" % (n, i))

    def ref_stmt(sc_, out_a, out_s, ind):
        pad = "    " * ind
        cands = [n for n in sc_.of(lambda ty: ty[0] == "int") if n not in sc_.frozen]
        if not cands:
            return
        n = r.choice(cands)
        t = sc_.vars[n][1]
        rn = g.fresh("r")
        mut = r.random() < 0.7
        out_a.append({"k": "let", "n": rn, "e": {"k": "addr", "e": {"k": "var", "n": n}, "mut": mut}, "dty": "&%s%s" % ("'" if mut else "", t[0])})
        out_s.append(pad + "let %s: &%s%s = &%s%s;" % (rn, "'" if mut else "", t[0], "'" if mut else "", n))
        if mut:
            saved = dict(sc_.vars)
            sc_.vars = {k: v for k, v in sc_.vars.items() if k != n}      # the referent is not touched while r is live
            a, s = int_expr(t, sc_, 1)
            sc_.vars = saved
            out_a.append({"k": "assign", "lv": {"k": "var", "n": rn}, "e": a})
            out_s.append(pad + "%s = %s;" % (rn, s))
        out_a.append({"k": "print", "e": {"k": "var", "n": rn}})
        out_s.append(pad + "io::Println(%s);" % rn)
        out_a.append({"k": "print", "e": {"k": "var", "n": n}})
        out_s.append(pad + "io::Println(%s);" % n)

    for _ in range(3):
        new_int(sc, ast, src, 1)
    for _ in range(size):
        stmt(sc, ast, src, 1, 2)
    for n in list(sc.vars):
        if sc.vars[n][0] in ("int", "bool") and r.random() < 0.5:
            print_var(sc, ast, src, 1, n)
    prog = {"funcs": g.funcs, "main": ast, "types": g.types}
    return prog, render(prog)


# ---- rendering: the source text is a function of the AST alone ---------------------------------------
def tyname(ty):
    return ("i" if ty["s"] else "u") + str(ty["b"])


def rexpr(e):
    k = e["k"]
    if k == "int":
        if "enum" in e:
            return e["enum"]
        return ("-" if e["neg"] else "") + "".join(str(d) for d in e["d"])
    if k == "bool":
        return "true" if e["v"] else "false"
    if k == "str":
        return json_str(e["v"])
    if k in ("var", "rawvar"):
        return e["n"]
    if k == "paren":
        return "(%s)" % rexpr(e["e"])
    if k in ("bin", "cmp", "logic"):
        return "(%s %s %s)" % (rexpr(e["l"]), e["op"], rexpr(e["r"]))
    if k == "neg":
        return "(-%s)" % rexpr(e["e"])
    if k == "not":
        return "(!%s)" % rexpr(e["e"])
    if k == "cast":
        return "(%s as %s)" % (rexpr(e["e"]), tyname(e["ty"]))
    if k == "field":
        return "%s.%s" % (rexpr(e["e"]), e["f"])
    if k == "index":
        return "%s[%s]" % (rexpr(e["e"]), rexpr(e["i"]))
    if k == "len":
        return "len(%s)" % rexpr(e["e"])
    if k == "struct":
        return "{ %s }" % ", ".join(".%s = %s" % (f["n"], rexpr(f["e"])) for f in e["fs"])
    if k == "array":
        return "[%s]" % ", ".join(rexpr(x) for x in e["es"])
    if k == "addr":
        return "&%s%s" % ("'" if e.get("mut") else "", rexpr(e["e"]))
    if k == "call":
        if e.get("method"):          # receiver is the first argument; a borrowed receiver is written as the place itself
            rc = e["args"][0]
            rc = rc["e"] if rc["k"] == "addr" else rc
            return "%s.%s(%s)" % (rexpr(rc), e["f"].split(".")[1], ", ".join(rexpr(a) for a in e["args"][1:]))
        return "%s(%s)" % (e["f"], ", ".join(rexpr(a) for a in e["args"]))
    if k == "fnlit":
        out = []
        rblock(e["body"], e.get("ind", 2), out)
        return "fn(%s)%s {\n%s\n%s}" % (", ".join("%s: %s" % (n, t) for n, t in zip(e["params"], e["ptys"])),
                                          " -> " + e["rty"] if e.get("rty") else "", "\n".join(out), "    " * (e.get("ind", 2) - 1))
    if k == "callv":
        return "%s(%s)" % (e["f"], ", ".join(rexpr(a) for a in e["args"]))
    if k == "none":
        return "none"
    if k == "some":
        return rexpr(e["e"])
    if k == "coal":
        return "(%s ?? %s)" % (rexpr(e["e"]), rexpr(e["d"]))
    if k == "isnone":
        return "(%s %s none)" % (rexpr(e["e"]), "!=" if e["neg"] else "==")
    if k == "catch":
        if e["h"]:
            out = []
            rblock(e["h"], e.get("ind", 2), out)
            if e.get("nofb"):        # the handler leaves the function: no fallback value
                return "%s catch %s {\n%s\n%s}" % (rexpr(e["call"]), e["n"], "\n".join(out), "    " * (e.get("ind", 2) - 1))
            return "%s catch %s {\n%s\n%s} %s" % (rexpr(e["call"]), e["n"], "\n".join(out), "    " * (e.get("ind", 2) - 1), rexpr(e["fb"]))
        return "%s catch %s" % (rexpr(e["call"]), rexpr(e["fb"]))
    raise ValueError(k)


def json_str(s):
    return '"' + s.replace("\\", "\\\\").replace('"', '\\"') + '"'


def rblock(b, ind, out):
    pad = "    " * ind
    for s in b:
        k = s["k"]
        if k == "let" and not s["dty"]:
            out.append(pad + "let %s := %s;" % (s["n"], rexpr(s["e"])))
        elif k == "let":
            out.append(pad + "%s %s: %s = %s;" % ("const" if s.get("const") else "let", s["n"], s["dty"], rexpr(s["e"])))
        elif k == "opassign":
            if s.get("incdec"):
                out.append(pad + "%s%s;" % (rexpr(s["lv"]), "++" if s["op"] == "+" else "--"))
            else:
                out.append(pad + "%s %s= %s;" % (rexpr(s["lv"]), s["op"], rexpr(s["e"])))
        elif k == "assign":
            out.append(pad + "%s = %s;" % (rexpr(s["lv"]), rexpr(s["e"])))
        elif k == "print":
            out.append(pad + "io::Println(%s);" % rexpr(s["e"]))
        elif k == "expr":
            out.append(pad + "%s;" % rexpr(s["e"]))
        elif k in ("ret", "retok"):
            out.append(pad + "return %s;" % rexpr(s["e"]))
        elif k == "reterr":
            out.append(pad + "return %s!;" % rexpr(s["e"]))
        elif k == "retvoid":
            out.append(pad + "return;")
        elif k == "if":
            out.append(pad + "if %s {" % rexpr(s["c"]))
            rblock(s["t"], ind + 1, out)
            if s["e"]:
                out.append(pad + "} else {")
                rblock(s["e"], ind + 1, out)
            out.append(pad + "}")
        elif k == "while":
            out.append(pad + "while %s {" % rexpr(s["c"]))
            rblock(s["b"], ind + 1, out)
            out.append(pad + "}")
        elif k == "for":
            out.append(pad + "for %s in %s..%s {" % (s["n"], rexpr(s["lo"]), rexpr(s["hi"])))
            rblock(s["b"], ind + 1, out)
            out.append(pad + "}")
        elif k == "forstep":
            out.append(pad + "for %s in %s..%s:%s {" % (s["n"], rexpr(s["lo"]), rexpr(s["hi"]), rexpr(s["st"])))
            rblock(s["b"], ind + 1, out)
            out.append(pad + "}")
        elif k == "forin":
            out.append(pad + "for %s%s in %s {" % (s["i"] + ", " if s["i"] else "", s["n"], rexpr(s["e"])))
            rblock(s["b"], ind + 1, out)
            out.append(pad + "}")
        elif k == "match":
            out.append(pad + "match %s {" % rexpr(s["e"]))
            for a in s["arms"]:
                out.append(pad + "    %s => {" % ("_" if a["dflt"] else rexpr(a["p"])))
                rblock(a["b"], ind + 2, out)
                out.append(pad + "    }")
            out.append(pad + "}")
        elif k == "append":
            out.append(pad + "append(%s%s, %s);" % ("" if s.get("viaref") else "&'", rexpr(s["lv"]), rexpr(s["e"])))
        elif k == "break":
            out.append(pad + "break;")
        elif k == "continue":
            out.append(pad + "continue;")
        elif k == "block":
            out.append(pad + "{")
            rblock(s["b"], ind + 1, out)
            out.append(pad + "}")
        else:
            raise ValueError(k)


def render(prog):
    out = ['import "std/io";']
    for t in prog.get("types", []):
        if "enum" in t:
            out.append("type %s enum { %s };" % (t["name"], ", ".join(t["enum"])))
        else:
            out.append("type %s struct { %s };" % (t["name"], ", ".join(".%s: %s" % (f["n"], f["ty"]) for f in t["fields"])))
    for name, f in prog["funcs"].items():
        ps = list(zip(f["params"], f["ptys"]))
        recv = ""
        if "." in name:              # method: the first parameter is the receiver
            recv = "(%s: %s) " % ps[0]
            ps, name = ps[1:], name.split(".")[1]
        ps = ", ".join("%s: %s" % (n, t) for n, t in ps)
        out.append("fn %s%s(%s)%s {" % (recv, name, ps, " -> " + f["rty"] if f.get("rty") else ""))
        rblock(f["body"], 1, out)
        out.append("}")
    out.append("fn main() {")
    rblock(prog["main"], 1, out)
    out.append("}")
    return "\n".join(out) + "\n"


# ---- reduction: smallest sub-program on which a predicate still holds (for replays and triage) ---------
def _blocks(prog):
    """Yields (container, key) for every statement list of the program."""
    def walk(b):
        for s in b:
            for key in ("t", "e", "b"):
                if isinstance(s.get(key), list):
                    yield s, key
                    yield from walk(s[key])
            if s["k"] == "match":
                for a in s["arms"]:
                    yield a, "b"
                    yield from walk(a["b"])
    yield prog, "main"
    yield from walk(prog["main"])
    for f in prog["funcs"].values():
        yield from walk(f["body"])


def reduce(prog, pred, budget=150):
    """Greedy statement deletion (largest chunks first), then unused helper functions and types."""
    import copy
    cur = copy.deepcopy(prog)
    calls = [0]

    def ok(p):
        if calls[0] >= budget:
            return False
        calls[0] += 1
        try:
            return pred(p)
        except Exception:
            return False
    changed = True
    while changed and calls[0] < budget:
        changed = False
        n_blocks = len(list(_blocks(cur)))
        for bi in range(n_blocks):
            blocks = list(_blocks(cur))
            if bi >= len(blocks):
                break
            cont, key = blocks[bi]
            size = max(1, len(cont[key]) // 2)
            while size >= 1:
                i = 0
                while i < len(cont[key]):
                    saved = cont[key]
                    cont[key] = saved[:i] + saved[i + size:]
                    if len(saved) > len(cont[key]) and ok(cur):
                        changed = True
                    else:
                        cont[key] = saved
                        i += size
                size //= 2
        # flatten: replace an if / while / match by nothing was tried above; drop unused helpers / types
        text = render(cur)
        for name in list(cur["funcs"]):
            if text.count(name + "(") <= 1:
                f = cur["funcs"].pop(name)
                if not ok(cur):
                    cur["funcs"][name] = f
        for t in list(cur.get("types", [])):
            if text.count(t["name"]) <= 1:
                cur["types"].remove(t)
                if not ok(cur):
                    cur["types"].append(t)
    return cur


# ---- programs for TLC-enumerated expression cases (spec/lang/ExprGen.tla) -----------------------------
def case_value(c, which):
    x = c[which]
    return int(("-" if x["neg"] else "") + "".join(str(d) for d in x["d"]))


def expr_program(cases, opaque=True):
    """One program evaluating every case; operands reach it through opaque calls (opaque) or are plain
    `let` bindings of literals, which the compiler's and QBE's constant evaluators may see through.
    Returns (prog, linemap): linemap[k] = index of the case that printed line k."""
    funcs, main, linemap = {}, [], []

    def operand(t, f, v):
        return {"k": "call", "f": f, "args": [lit_ast(t, v)]} if opaque else lit_ast(t, v)
    for j, c in enumerate(cases):
        t = BYNAME[c["ty"]]
        f = "id_" + t[0]
        if f not in funcs and opaque:
            funcs[f] = {"params": ["x"], "ptys": [t[0]], "rty": t[0], "body": [{"k": "ret", "e": {"k": "var", "n": "x"}}]}
        a, b = "a%d" % j, "b%d" % j
        va, vb = {"k": "var", "n": a}, {"k": "var", "n": b}
        op = c["op"]
        main.append({"k": "let", "n": a, "dty": t[0], "e": operand(t, f, case_value(c, "a"))})
        if not (op == "neg" or op.startswith("as ") or op.startswith("dup")):
            main.append({"k": "let", "n": b, "dty": t[0], "e": operand(t, f, case_value(c, "b"))})
        if op in ("+", "-", "*", "/", "%"):
            e = {"k": "bin", "op": op, "l": va, "r": vb, "ty": tyj(t)}
            main += [{"k": "let", "n": "r%d" % j, "dty": t[0], "e": e}, {"k": "print", "e": {"k": "var", "n": "r%d" % j}},
                     # the same result consumed by a comparison (register-width vs memory-width results)
                     {"k": "let", "n": "c%d" % j, "dty": "bool", "e": {"k": "cmp", "op": "<", "l": e, "r": va}},
                     {"k": "print", "e": {"k": "var", "n": "c%d" % j}}]
            linemap += [j, j]
            if t[2] < 64:
                # ... and by a widening cast before it is ever stored: every bit of the temporary is observed
                tw = BYNAME[("i" if t[1] else "u") + "64"]
                main += [{"k": "let", "n": "w%d" % j, "dty": tw[0], "e": {"k": "cast", "e": e, "ty": tyj(tw)}},
                         {"k": "print", "e": {"k": "var", "n": "w%d" % j}}]
                linemap += [j]
        elif op in ("<", "<=", ">", ">=", "==", "!="):
            main += [{"k": "let", "n": "c%d" % j, "dty": "bool", "e": {"k": "cmp", "op": op, "l": va, "r": vb}},
                     {"k": "print", "e": {"k": "var", "n": "c%d" % j}}]
            linemap += [j]
        elif op.startswith("dup"):
            e = {"k": "bin", "op": op[3], "l": va, "r": va, "ty": tyj(t)}
            main += [{"k": "assign", "lv": va, "e": e}, {"k": "print", "e": va}]
            linemap += [j]
        elif op == "neg":
            ne = {"k": "neg", "e": va, "ty": tyj(t)}
            main += [{"k": "let", "n": "r%d" % j, "dty": t[0], "e": ne},
                     {"k": "print", "e": {"k": "var", "n": "r%d" % j}},
                     # the negation consumed by a division before it is stored
                     {"k": "let", "n": "q%d" % j, "dty": t[0], "e": {"k": "bin", "op": "/", "l": ne, "r": lit_ast(t, 3), "ty": tyj(t)}},
                     {"k": "print", "e": {"k": "var", "n": "q%d" % j}}]
            linemap += [j, j]
        else:
            t2 = BYNAME[op[3:]]
            ce = {"k": "cast", "e": va, "ty": tyj(t2)}
            main += [{"k": "let", "n": "r%d" % j, "dty": t2[0], "e": ce},
                     {"k": "print", "e": {"k": "var", "n": "r%d" % j}},
                     # the converted value consumed by a division before it is stored
                     {"k": "let", "n": "q%d" % j, "dty": t2[0], "e": {"k": "bin", "op": "/", "l": ce, "r": lit_ast(t2, 3), "ty": tyj(t2)}},
                     {"k": "print", "e": {"k": "var", "n": "q%d" % j}}]
            linemap += [j, j]
    return {"funcs": funcs, "main": main, "types": []}, linemap


# ---- batching: several programs in one translation unit (one compile + link, one run per program) --------
import copy as _copy
import re as _re


def mangle(prog, pre):
    """A copy of the program with every declared type and function name prefixed (AST level): the programs of a
    batch must not share names.  Variables are local to their functions and stay as they are."""
    q = _copy.deepcopy(prog)
    tnames = [t["name"] for t in q.get("types", [])]
    pat = _re.compile(r"\b(%s)\b" % "|".join(_re.escape(n) for n in sorted(tnames, key=len, reverse=True))) if tnames else None

    def ty(sx):
        return pat.sub(lambda m: pre + m.group(1), sx) if pat and isinstance(sx, str) else sx

    def fname(n):
        return pre + n          # "S5.bump" -> "p3_S5.bump": the receiver type is mangled, the method name kept

    def walk(n):
        if isinstance(n, dict):
            k = n.get("k")
            if k in ("call",):
                n["f"] = fname(n["f"])
            if "dty" in n:
                n["dty"] = ty(n["dty"])
            if k == "fnlit":
                n["ptys"] = [ty(x) for x in n["ptys"]]
                if n.get("rty"):
                    n["rty"] = ty(n["rty"])
            if k == "int" and "enum" in n:
                n["enum"] = ty(n["enum"])
            for v in n.values():
                walk(v)
        elif isinstance(n, list):
            for v in n:
                walk(v)
    for t in q.get("types", []):
        t["name"] = pre + t["name"]
        for f in t.get("fields", []):
            f["ty"] = ty(f["ty"])
    funcs = {}
    for name, f in q["funcs"].items():
        f["ptys"] = [ty(x) for x in f["ptys"]]
        if f.get("rty"):
            f["rty"] = ty(f["rty"])
        walk(f["body"])
        funcs[fname(name)] = f
    q["funcs"] = funcs
    walk(q["main"])
    return q


def render_batch(progs):
    """One source text holding every program as its own set of declarations plus fn p<k>_main(); main reads the
    number of the program to run from standard input."""
    out = ['import "std/io";']
    for k, p in enumerate(progs):
        q = mangle(p, "p%d_" % k)
        body = render(q).split("\n")
        assert body[0] == 'import "std/io";'
        text = "\n".join(body[1:])
        i = text.rindex("fn main() {")
        out.append(text[:i] + "fn p%d_main() {" % k + text[i + len("fn main() {"):])
    out.append("fn main() {")
    out.append('    let sel: i32 = io::ReadInt() catch selerr {\n        io::Println("no selector");\n    } 0 - 1;')
    for k in range(len(progs)):
        out.append("    if sel == %d {\n        p%d_main();\n    }" % (k, k))
    out.append("}")
    return "\n".join(out) + "\n"
