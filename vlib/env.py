"""Build environment: rebuilds everything a check needs from /repo's current working tree into a
scratch directory outside /repo and /verif, and runs the compiler / produced programs.

Nothing here decides a property; it only builds and observes (DESIGN §3.2, §3.6).
"""
import atexit
import glob
import json
import os
import shutil
import signal
import subprocess
import tempfile
import threading
import time

REPO = os.environ.get("VERIF_REPO", "/repo")
VERIF = os.path.dirname(os.path.dirname(os.path.abspath(__file__)))
GO = "go1.26"

GOENV = {
    "GOFLAGS": "-mod=mod",
    "GOPROXY": "off",
    "GOSUMDB": "off",
    "GOTOOLCHAIN": "local",
}


def goenv():
    e = dict(os.environ)
    e.update(GOENV)
    # the embedded QBE is #include'd from /repo/qbe, which the Go build cache does not track:
    # make its content part of the cgo cache key so that a changed qbe/*.c is really rebuilt
    import hashlib
    h = hashlib.sha1()
    for f in sorted(glob.glob(os.path.join(REPO, "qbe", "*.[ch]")) + glob.glob(os.path.join(REPO, "qbe", "*", "*.[ch]"))):
        with open(f, "rb") as fh:
            h.update(f.encode() + b"\0" + fh.read())
    e["CGO_CFLAGS"] = (e.get("CGO_CFLAGS", "-g -O2") + " -DVERIF_QBE_SRC_" + h.hexdigest()[:16]).strip()
    return e


class BuildError(Exception):
    pass


_RETRY_LOCK = threading.Lock()


class Env:
    """One scratch build of /repo's working tree."""

    def __init__(self, keep=False):
        base = "/dev/shm" if os.path.isdir("/dev/shm") and os.access("/dev/shm", os.W_OK) else None
        self.root = tempfile.mkdtemp(prefix="vchk_", dir=os.environ.get("VERIF_SCRATCH") or base)
        self.keep = keep
        atexit.register(self.cleanup)
        self.ferret = os.path.join(self.root, "ferret")
        self.libs = os.path.join(self.root, "libs")
        self._built = set()
        self._n = 0

    def cleanup(self):
        if not self.keep:
            shutil.rmtree(self.root, ignore_errors=True)

    def tmpdir(self, prefix="w"):
        self._n += 1
        d = os.path.join(self.root, "%s%06d" % (prefix, self._n))
        os.makedirs(d, exist_ok=True)
        return d

    # ---------------------------------------------------------------- builds
    def build_compiler(self, tags="verif"):
        if "compiler" in self._built:
            return
        t0 = time.time()
        cmd = [GO, "build", "-tags", tags, "-o", self.ferret, "."]
        r = subprocess.run(cmd, cwd=REPO, env=goenv(), capture_output=True, text=True)
        if r.returncode != 0:
            raise BuildError("compiler build failed:\n" + r.stdout + r.stderr)
        self._built.add("compiler")
        self.t_compiler = time.time() - t0

    def build_runtime(self):
        """libferret_runtime.a + ferret_libs/*.fer, as tools/main.go does."""
        if "runtime" in self._built:
            return
        os.makedirs(self.libs, exist_ok=True)
        src = os.path.join(REPO, "ferret_libs")
        for dp, dn, fn in os.walk(src):
            rel = os.path.relpath(dp, src)
            for f in fn:
                if f.endswith(".fer"):
                    os.makedirs(os.path.join(self.libs, rel), exist_ok=True)
                    shutil.copy(os.path.join(dp, f), os.path.join(self.libs, rel, f))
        objdir = os.path.join(self.root, "rtobj")
        os.makedirs(objdir, exist_ok=True)
        srcs = sorted(glob.glob(os.path.join(REPO, "runtime/core/*.c")) +
                      glob.glob(os.path.join(REPO, "runtime/libs/*.c")))
        procs = []
        objs = []
        for s in srcs:
            o = os.path.join(objdir, os.path.basename(s)[:-2] + ".o")
            objs.append(o)
            procs.append((s, subprocess.Popen(
                ["gcc", "-std=c99", "-O2", "-w", "-fno-pie",
                 "-I", os.path.join(REPO, "runtime/core"), "-I", os.path.join(REPO, "runtime/libs"),
                 "-c", s, "-o", o], stdout=subprocess.PIPE, stderr=subprocess.STDOUT, text=True)))
        for s, p in procs:
            out, _ = p.communicate()
            if p.returncode != 0:
                raise BuildError("runtime build failed for %s:\n%s" % (s, out))
        r = subprocess.run(["ar", "rcs", os.path.join(self.libs, "libferret_runtime.a")] + objs,
                           capture_output=True, text=True)
        if r.returncode != 0:
            raise BuildError("ar failed: " + r.stderr)
        self._built.add("runtime")

    def build_all(self):
        self.build_compiler()
        self.build_runtime()

    def build_overlay_driver(self, name, gofile, pkgdir="internal/verifdrv", extra=None):
        """Compile a Go main package that lives in /verif as if it were /repo/<pkgdir>/main.go.
        extra: {path relative to /repo: file in /verif} -- further overlay-only files (never written to /repo)."""
        out = os.path.join(self.root, name)
        ov = os.path.join(self.root, name + ".overlay.json")
        target = os.path.join(REPO, pkgdir + "_" + name, "main.go")
        rep = {target: gofile}
        for rel, src in (extra or {}).items():
            rep[os.path.join(REPO, rel)] = src
        with open(ov, "w") as f:
            json.dump({"Replace": rep}, f)
        r = subprocess.run([GO, "build", "-tags", "verif", "-overlay", ov, "-o", out,
                            "./" + pkgdir + "_" + name], cwd=REPO, env=goenv(),
                           capture_output=True, text=True)
        if r.returncode != 0:
            raise BuildError("overlay driver %s failed:\n%s%s" % (name, r.stdout, r.stderr))
        return out

    # ---------------------------------------------------------------- compile
    def compile(self, entry, target="native", out=None, typecheck_only=False, keep_gen=False,
                timeout=60, trace=None, schedule=None, extra_env=None, cwd=None):
        """Run the compiler. Returns an Obs dict (DESIGN §3.6)."""
        cmd = [self.ferret]
        if typecheck_only:
            cmd.append("-t")
        if keep_gen:
            cmd.append("-keep-gen")
        if target == "wasm":
            cmd += ["-target", "wasm"]
        if out:
            cmd += ["-o", out]
        cmd.append(entry)
        e = dict(os.environ)
        e["FERRET_LIBS_PATH"] = self.libs
        e["NO_COLOR"] = "1"
        # many compilations run side by side: a Go runtime with 16 Ps each wastes most of the machine on scheduling
        # (checks that study scheduling set GOMAXPROCS themselves through extra_env)
        e.setdefault("GOMAXPROCS", os.environ.get("VERIF_COMPILER_GOMAXPROCS", "2"))
        if trace:
            e["FERRET_VERIF_TRACE"] = trace
        if schedule:
            e["FERRET_VERIF_SCHEDULE"] = schedule
        if extra_env:
            e.update(extra_env)
        t0 = time.time()
        try:
            r = subprocess.run(cmd, cwd=cwd or os.path.dirname(os.path.abspath(entry)), env=e,
                               capture_output=True, timeout=timeout)
            rc, so, se, hung = r.returncode, r.stdout, r.stderr, False
        except subprocess.TimeoutExpired as ex:
            rc, so, se, hung = -999, ex.stdout or b"", ex.stderr or b"", True
        if hung:
            # a time-out next to fifteen other compilations on a loaded machine is not yet a hang: the same
            # run is repeated one at a time with six times the limit, and only that outcome is reported
            with _RETRY_LOCK:
                for f in (trace, out):
                    if f and os.path.isfile(f):
                        os.remove(f)
                try:
                    r = subprocess.run(cmd, cwd=cwd or os.path.dirname(os.path.abspath(entry)), env=e,
                                       capture_output=True, timeout=max(6 * timeout, 120))
                    rc, so, se, hung = r.returncode, r.stdout, r.stderr, False
                except subprocess.TimeoutExpired as ex:
                    rc, so, se, hung = -999, ex.stdout or b"", ex.stderr or b"", True
        dt = time.time() - t0
        so = so.decode("utf-8", "replace")
        se = se.decode("utf-8", "replace")
        text = strip_ansi(so + "\n" + se)
        art = bool(out) and os.path.exists(out) and os.path.getsize(out) > 0
        errs = diag_errors(text)
        crash = (rc == 2 and ("panic:" in text or "goroutine " in text)) or rc < 0 and not hung \
            or "fatal error:" in text or "[signal SIG" in text
        if hung:
            cls = "HANG"
        elif crash:
            cls = "CRASH"
        elif rc == 0 and (typecheck_only or art) and not errs:
            cls = "ACCEPT"
        elif rc == 1 and errs and not art:
            cls = "REJECT"
        else:
            cls = "INCONSISTENT"
        return {"cls": cls, "rc": rc, "text": text, "errors": errs, "artifact": art, "wall": dt}

    # ---------------------------------------------------------------- run
    def run_native(self, exe, args=(), timeout=10, stdin=None):
        def once(limit):
            return subprocess.run([exe] + list(args), capture_output=True, timeout=limit,
                                  **({"input": stdin.encode()} if stdin is not None else {"stdin": subprocess.DEVNULL}),
                                  cwd=os.path.dirname(exe))
        try:
            r = once(timeout)
        except subprocess.TimeoutExpired:
            try:                        # as in compile(): a time-out is confirmed one at a time before it is reported
                with _RETRY_LOCK:
                    r = once(max(6 * timeout, 60))
            except subprocess.TimeoutExpired as ex:
                return {"cls": "TIMEOUT", "rc": None, "out": (ex.stdout or b"").decode("utf-8", "replace"),
                        "err": (ex.stderr or b"").decode("utf-8", "replace")}
        out = r.stdout.decode("utf-8", "replace")
        err = r.stderr.decode("utf-8", "replace")
        if r.returncode == 0:
            cls = "EXIT0"
        elif r.returncode == -signal.SIGABRT and "panic" in err.lower():
            cls = "PANIC"
        elif r.returncode > 0 and "panic" in err.lower():
            cls = "PANIC"
        elif r.returncode < 0:
            cls = "TRAP"
        else:
            cls = "EXIT%d" % r.returncode
        return {"cls": cls, "rc": r.returncode, "out": out, "err": err}

    def run_wasm(self, wasm, timeout=20):
        js = os.path.join(VERIF, "harness", "js", "runwasm.js")
        rt = os.path.join(REPO, "runtime", "wasm", "runtime.js")
        def once(limit):
            return subprocess.run(["node", js, rt, wasm], capture_output=True, timeout=limit, stdin=subprocess.DEVNULL)
        try:
            r = once(timeout)
        except subprocess.TimeoutExpired:
            try:
                with _RETRY_LOCK:
                    r = once(max(6 * timeout, 60))
            except subprocess.TimeoutExpired as ex:
                return {"cls": "TIMEOUT", "rc": None, "out": (ex.stdout or b"").decode("utf-8", "replace"),
                        "err": (ex.stderr or b"").decode("utf-8", "replace")}
        out = r.stdout.decode("utf-8", "replace")
        err = r.stderr.decode("utf-8", "replace")
        if r.returncode == 0:
            cls = "EXIT0"
        elif r.returncode == 3:
            cls = "PANIC"
        elif r.returncode == 4:
            cls = "TRAP"
        else:
            cls = "EXIT%d" % r.returncode
        return {"cls": cls, "rc": r.returncode, "out": out, "err": err}


import re

_ANSI = re.compile(r"\x1b\[[0-9;]*[A-Za-z]")


def strip_ansi(s):
    return _ANSI.sub("", s)


# "error[T0004]: message" then "  --> file:line:col"
_DIAG_HEAD = re.compile(r"^\s*(error|warning|info|hint)(?:\[([A-Z]\d+)\])?:\s*(.*)$")
_DIAG_LOC = re.compile(r"^\s*-->\s*(.*?):(\d+):(\d+)")


def diagnostics(text):
    """Parse the emitter's output into a list of {sev, code, msg, file, line, col}."""
    out = []
    cur = None
    for ln in text.split("\n"):
        m = _DIAG_HEAD.match(ln)
        if m:
            cur = {"sev": m.group(1), "code": m.group(2) or "", "msg": m.group(3).strip(),
                   "file": None, "line": None, "col": None}
            out.append(cur)
            continue
        m = _DIAG_LOC.match(ln)
        if m and cur is not None and cur["file"] is None:
            cur["file"] = m.group(1)
            cur["line"] = int(m.group(2))
            cur["col"] = int(m.group(3))
    return out


def diag_errors(text):
    return [d for d in diagnostics(text) if d["sev"] == "error"]
