"""Shared machinery of the FerretSem family (C01, C02, C09, C18): build a program for a target, run it,
record (lines, termination), have TLC judge the record against FerretSem, classify the outcome."""
import os
import re
import shutil

from . import core, progen, sem

CONST_OVERFLOW = re.compile(r"overflows|overflow in constant|out of range for", re.I)


def build_and_run(env, text, target="native", keep=False):
    d = env.tmpdir("sr")
    p = os.path.join(d, "m.fer")
    with open(p, "w") as f:
        f.write(text)
    try:
        if target == "native":
            exe = os.path.join(d, "m.out")
            o = env.compile(p, out=exe, timeout=60)
            r = env.run_native(exe) if o["cls"] == "ACCEPT" else None
        else:
            exe = os.path.join(d, "m.wasm")
            o = env.compile(p, target="wasm", out=exe, timeout=60)
            r = env.run_wasm(exe) if o["cls"] == "ACCEPT" else None
        return o, r
    finally:
        if not keep:
            shutil.rmtree(d, ignore_errors=True)


def crash_site(o):
    t = o["text"]
    for pat in (r"^panic: .*", r"^fatal error: .*", r"^SIG\w+: .*", r"signal \w+.*"):
        m = re.search(pat, t, re.M)
        if m:
            msg = m.group(0)[:100]
            break
    else:
        msg = t.strip().split("\n")[0][:100] if t.strip() else ""
    site = "?"
    i = t.find("goroutine ")
    if i >= 0:
        m = re.search(r"/(internal/[\w/.\-]+\.go):(\d+)", t[i:])
        if m:
            site = "%s:%s" % (m.group(1), m.group(2))
    return site, msg


def norm_msg(o):
    m = o["errors"][0]["msg"] if o["errors"] else (o["text"].strip().split("\n")[-1] if o["text"].strip() else "")
    return re.sub(r"'[^']*'|\d+", "#", m)[:70]


BATCH = int(os.environ.get("VERIF_BATCH", "12"))
BATCH_BYTES = int(os.environ.get("VERIF_BATCH_BYTES", "16000"))


def build_and_run_batch(env, progs):
    """Native only: one compile + link for several programs (process creation is what limits the throughput of
    this sandbox), then one run per program, selected through standard input.  Returns a list of (o, r) like
    build_and_run, or None when the batch as a whole is not accepted (the caller then builds each program alone, so
    that a rejection or a compiler failure is attributed to the program that causes it)."""
    d = env.tmpdir("sb")
    p = os.path.join(d, "m.fer")
    try:
        with open(p, "w") as f:
            f.write(progen.render_batch(progs))
        exe = os.path.join(d, "m.out")
        o = env.compile(p, out=exe, timeout=120)
        if o["cls"] != "ACCEPT":
            return None
        return [(o, env.run_native(exe, stdin="%d\n" % k)) for k in range(len(progs))]
    except Exception:
        return None
    finally:
        shutil.rmtree(d, ignore_errors=True)


def observe(env, progs, target="native", workers=12, solo=()):
    """progs: list of (prog AST, name).  Returns list of observation dicts:
       status in {ran, void, crash, hang, rejected, badrun}; for 'ran': out (list of lines), halt."""
    texts = [progen.render(p[0]) for p in progs]
    if target == "native" and BATCH > 1 and len(progs) > 1:
        solo = set(solo)            # programs expected not to be accepted: built alone straight away
        rest = [i for i in range(len(progs)) if i not in solo]
        # at most BATCH programs and BATCH_BYTES of source text per translation unit (compile time grows faster than
        # linearly with the size of a unit)
        groups, cur, size = [], [], 0
        for i in rest:
            if cur and (len(cur) >= BATCH or size + len(texts[i]) > BATCH_BYTES):
                groups.append(cur)
                cur, size = [], 0
            cur.append(i)
            size += len(texts[i])
        if cur:
            groups.append(cur)
        groups += [[i] for i in sorted(solo)]

        def do(g):
            br = build_and_run_batch(env, [progs[i][0] for i in g]) if len(g) > 1 else None
            if br is None:
                return [build_and_run(env, texts[i], target) for i in g]
            # a run that did not end normally is repeated with the program alone in its executable
            return [x if x[1]["cls"] == "EXIT0" else build_and_run(env, texts[i], target) for i, x in zip(g, br)]
        res = [None] * len(progs)
        for g, grp in zip(groups, core.pmap(do, groups, workers=workers)):
            for i, x in zip(g, grp):
                res[i] = x
    else:
        res = list(core.pmap(lambda t: build_and_run(env, t, target), texts, workers=workers))
    # a timeout observed while many programs run side by side is confirmed alone before it counts
    for i, (o, r) in enumerate(res):
        if (r is not None and r["cls"] == "TIMEOUT") or o["cls"] == "HANG":
            res[i] = build_and_run(env, texts[i], target)
    obs = []
    for (prog, name), text, (o, r) in zip(progs, texts, res):
        ob = {"name": name, "text": text, "prog": prog, "compile": o["cls"]}
        if o["cls"] in ("CRASH", "INCONSISTENT"):
            site, msg = crash_site(o)
            ob.update(status="crash", site=site, msg=msg)
        elif o["cls"] == "HANG":
            ob.update(status="hang", site="", msg="no result within 60 s")
        elif r is None:
            msgs = [e["msg"] for e in o["errors"]]
            if any(CONST_OVERFLOW.search(m) for m in msgs):
                ob.update(status="void", msg=msgs[0][:100])
            else:
                ob.update(status="rejected", msg=norm_msg(o), msgs=msgs[:3])
        elif r["cls"] == "TRAP" and target == "wasm":      # the wasm back end's way of stopping abnormally
            ob.update(status="ran", out=r["out"].split("\n")[:-1] if r["out"] else [], halt="panic", err=r["err"][:200], trap=True)
        elif r["cls"] not in ("EXIT0", "PANIC"):
            ob.update(status="badrun", msg="%s %s" % (r["cls"], r["err"][:80]), out=r["out"].split("\n")[:-1], halt=r["cls"])
        else:
            ob.update(status="ran", out=r["out"].split("\n")[:-1] if r["out"] else [],
                      halt="exit0" if r["cls"] == "EXIT0" else "panic", err=r["err"][:200])
        obs.append(ob)
    return obs


def judge(env, obs, second=None):
    """Adds 'verdict' ({ok, out, halt, ok2, agree}) to every observation that ran; returns interpreter errors.
    second: observations of the same programs on the other back end (C02); judged together where both ran."""
    cases = []
    for i, ob in enumerate(obs):
        if ob["status"] != "ran":
            continue
        c = {"id": i, "prog": ob["prog"], "out": ob["out"], "halt": ob["halt"]}
        if second is not None:
            if second[i]["status"] != "ran":
                continue
            c.update(out2=second[i]["out"], halt2=second[i]["halt"])
        cases.append(c)
    verdicts, errors = sem.judge(env, cases)
    for i, ob in enumerate(obs):
        if ob["status"] == "ran":
            ob["verdict"] = verdicts.get(i)
    return errors


def uses_wide(prog):
    import json
    t = json.dumps(prog)
    return '"b": 128' in t or '"b": 256' in t or "128" in json.dumps(prog.get("types", [])) or "256" in json.dumps(prog.get("types", []))


def first_diff(got, want, ghalt, whalt):
    k = 0
    while k < len(got) and k < len(want) and got[k] == want[k]:
        k += 1
    real = got[k] if k < len(got) else "<end:%s>" % ghalt
    exp = want[k] if k < len(want) else "<end:%s>" % whalt
    return k, real, exp
