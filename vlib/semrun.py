"""Shared machinery of the FerretSem family (C01, C02, C09, C18): build a program for a target, run it,
record (lines, termination), have TLC judge the record against FerretSem, classify the outcome."""
import os
import re
import shutil

from . import core, progen, sem

CONST_OVERFLOW = re.compile(r"overflows|overflow in constant|out of range for", re.I)


def build_and_run(env, text, target="native", keep=False):
    d = env.tmpdir("sr")
    p = os.path.join(d, "m.fer")
    with open(p, "w") as f:
        f.write(text)
    try:
        if target == "native":
            exe = os.path.join(d, "m.out")
            o = env.compile(p, out=exe, timeout=60)
            r = env.run_native(exe) if o["cls"] == "ACCEPT" else None
        else:
            exe = os.path.join(d, "m.wasm")
            o = env.compile(p, target="wasm", out=exe, timeout=60)
            r = env.run_wasm(exe) if o["cls"] == "ACCEPT" else None
        return o, r
    finally:
        if not keep:
            shutil.rmtree(d, ignore_errors=True)


def crash_site(o):
    t = o["text"]
    for pat in (r"^panic: .*", r"^fatal error: .*", r"^SIG\w+: .*", r"signal \w+.*"):
        m = re.search(pat, t, re.M)
        if m:
            msg = m.group(0)[:100]
            break
    else:
        msg = t.strip().split("\n")[0][:100] if t.strip() else ""
    site = "?"
    i = t.find("goroutine ")
    if i >= 0:
        m = re.search(r"/(internal/[\w/.\-]+\.go):(\d+)", t[i:])
        if m:
            site = "%s:%s" % (m.group(1), m.group(2))
    return site, msg


def norm_msg(o):
    m = o["errors"][0]["msg"] if o["errors"] else (o["text"].strip().split("\n")[-1] if o["text"].strip() else "")
    return re.sub(r"'[^']*'|\d+", "#", m)[:70]


def observe(env, progs, target="native", workers=12):
    """progs: list of (prog AST, name).  Returns list of observation dicts:
       status in {ran, void, crash, hang, rejected, badrun}; for 'ran': out (list of lines), halt."""
    texts = [progen.render(p[0]) for p in progs]
    res = core.pmap(lambda t: build_and_run(env, t, target), texts, workers=workers)
    obs = []
    for (prog, name), text, (o, r) in zip(progs, texts, res):
        ob = {"name": name, "text": text, "prog": prog, "compile": o["cls"]}
        if o["cls"] in ("CRASH", "INCONSISTENT"):
            site, msg = crash_site(o)
            ob.update(status="crash", site=site, msg=msg)
        elif o["cls"] == "HANG":
            ob.update(status="hang", site="", msg="no result within 60 s")
        elif r is None:
            msgs = [e["msg"] for e in o["errors"]]
            if any(CONST_OVERFLOW.search(m) for m in msgs):
                ob.update(status="void", msg=msgs[0][:100])
            else:
                ob.update(status="rejected", msg=norm_msg(o), msgs=msgs[:3])
        elif r["cls"] == "TRAP" and target == "wasm":      # the wasm back end's way of stopping abnormally
            ob.update(status="ran", out=r["out"].split("\n")[:-1] if r["out"] else [], halt="panic", err=r["err"][:200], trap=True)
        elif r["cls"] not in ("EXIT0", "PANIC"):
            ob.update(status="badrun", msg="%s %s" % (r["cls"], r["err"][:80]), out=r["out"].split("\n")[:-1], halt=r["cls"])
        else:
            ob.update(status="ran", out=r["out"].split("\n")[:-1] if r["out"] else [],
                      halt="exit0" if r["cls"] == "EXIT0" else "panic", err=r["err"][:200])
        obs.append(ob)
    return obs


def judge(env, obs, second=None):
    """Adds 'verdict' ({ok, out, halt, ok2, agree}) to every observation that ran; returns interpreter errors.
    second: observations of the same programs on the other back end (C02); judged together where both ran."""
    cases = []
    for i, ob in enumerate(obs):
        if ob["status"] != "ran":
            continue
        c = {"id": i, "prog": ob["prog"], "out": ob["out"], "halt": ob["halt"]}
        if second is not None:
            if second[i]["status"] != "ran":
                continue
            c.update(out2=second[i]["out"], halt2=second[i]["halt"])
        cases.append(c)
    verdicts, errors = sem.judge(env, cases)
    for i, ob in enumerate(obs):
        if ob["status"] == "ran":
            ob["verdict"] = verdicts.get(i)
    return errors


def uses_wide(prog):
    import json
    t = json.dumps(prog)
    return '"b": 128' in t or '"b": 256' in t or "128" in json.dumps(prog.get("types", [])) or "256" in json.dumps(prog.get("types", []))


def first_diff(got, want, ghalt, whalt):
    k = 0
    while k < len(got) and k < len(want) and got[k] == want[k]:
        k += 1
    real = got[k] if k < len(got) else "<end:%s>" % ghalt
    exp = want[k] if k < len(want) else "<end:%s>" % whalt
    return k, real, exp
