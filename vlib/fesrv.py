"""Pool of in-process compile servers (harness/overlay/fesrv). See that file's header for why.

Every result that is not a clean ACCEPT/REJECT (server died, recovered panic, timeout, inconsistent
outcome) is re-run through the real CLI binary, alone, and the CLI's observation is what is
returned — so no CRASH/HANG/INCONSISTENT class ever comes from the server path alone."""
import json
import os
import queue
import subprocess
import threading

from . import env as envmod

DRV_SRC = os.path.join(envmod.VERIF, "harness", "overlay", "fesrv", "main.go")


class Pool:
    def __init__(self, env, n=None, job_timeout=30):
        self.env = env
        self.n = n or min(16, os.cpu_count() or 4)
        self.job_timeout = job_timeout
        self.drv = env.build_overlay_driver("fesrv", DRV_SRC)
        self.stats = {"jobs": 0, "server_deaths": 0, "timeouts": 0, "cli_confirmations": 0}

    def _spawn(self):
        e = dict(os.environ)
        e["FERRET_LIBS_PATH"] = self.env.libs
        e["NO_COLOR"] = "1"
        e["GOMAXPROCS"] = "2"
        e["TMPDIR"] = self.env.root
        return subprocess.Popen([self.drv], stdin=subprocess.PIPE, stdout=subprocess.PIPE,
                                stderr=subprocess.DEVNULL, env=e, cwd=self.env.root, text=True, bufsize=1)

    def _worker(self, q, results):
        p = None
        while True:
            try:
                idx, job = q.get_nowait()
            except queue.Empty:
                break
            if p is None or p.poll() is not None:
                p = self._spawn()
            timed_out = [False]

            def kill(pp=p, flag=timed_out):
                flag[0] = True
                try:
                    pp.kill()
                except Exception:
                    pass
            tm = threading.Timer(self.job_timeout, kill)
            tm.start()
            res = None
            try:
                j = dict(job)
                j["id"] = idx
                p.stdin.write(json.dumps(j) + "\n")
                p.stdin.flush()
                while True:
                    ln = p.stdout.readline()
                    if not ln:
                        break
                    try:
                        o = json.loads(ln)
                    except Exception:
                        continue
                    if "start" in o:
                        continue
                    if o.get("id") == idx:
                        res = o
                        break
            except (BrokenPipeError, OSError):
                res = None
            tm.cancel()
            if res is None:
                if timed_out[0]:
                    self.stats["timeouts"] += 1
                    results[idx] = {"srv": "TIMEOUT"}
                else:
                    self.stats["server_deaths"] += 1
                    results[idx] = {"srv": "DIED"}
                try:
                    p.kill()
                except Exception:
                    pass
                p = None
            else:
                results[idx] = res
        if p is not None:
            try:
                p.stdin.close()
                p.wait(timeout=5)
            except Exception:
                p.kill()

    def compile_many(self, jobs, cli_timeout=60):
        """jobs: list of dict(entry, backend='qbe'|'wasm', skip=bool, out=path|None).
        Returns a list of observation dicts shaped like Env.compile's."""
        jobs = list(jobs)
        results = [None] * len(jobs)
        q = queue.Queue()
        for i, j in enumerate(jobs):
            q.put((i, j))
        ths = [threading.Thread(target=self._worker, args=(q, results)) for _ in range(min(self.n, len(jobs)))]
        for t in ths:
            t.start()
        for t in ths:
            t.join()
        self.stats["jobs"] += len(jobs)
        obs = []
        redo = []
        for i, (j, r) in enumerate(zip(jobs, results)):
            o = self._classify(j, r)
            if o is None:
                redo.append(i)
            obs.append(o)
        for i in redo:                       # confirm alone through the real CLI
            j = jobs[i]
            self.stats["cli_confirmations"] += 1
            obs[i] = self.env.compile(j["entry"], target="wasm" if j.get("backend") == "wasm" else "native",
                                      out=j.get("out"), typecheck_only=bool(j.get("skip")), timeout=cli_timeout)
            obs[i]["via"] = "cli"
        return obs

    def _classify(self, j, r):
        if r is None or "srv" in r or r.get("panic"):
            return None
        text = envmod.strip_ansi((r.get("stdout") or "") + "\n" + (r.get("stderr") or ""))
        errs = envmod.diag_errors(text)
        out = j.get("out")
        art = bool(out) and os.path.exists(out) and os.path.getsize(out) > 0
        skip = bool(j.get("skip"))
        if r["success"] and not errs and (skip or art):
            cls = "ACCEPT"
        elif (not r["success"]) and errs and not art:
            cls = "REJECT"
        else:
            return None
        return {"cls": cls, "rc": 0 if r["success"] else 1, "text": text, "errors": errs, "artifact": art,
                "wall": 0.0, "via": "srv"}
