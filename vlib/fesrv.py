"""Pool of in-process compile servers (harness/overlay/fesrv). See that file's header for why.

Every result that is not a clean ACCEPT/REJECT (server died, recovered panic, timeout, inconsistent
outcome) is re-run through the real CLI binary, alone, and the CLI's observation is what is
returned — so no CRASH/HANG/INCONSISTENT class ever comes from the server path alone."""
import json
import os
import queue
import subprocess
import threading

from . import env as envmod

DRV_SRC = os.path.join(envmod.VERIF, "harness", "overlay", "fesrv", "main.go")


class Pool:
    def __init__(self, env, n=None, job_timeout=30):
        self.env = env
        self.n = n or min(16, os.cpu_count() or 4)
        self.job_timeout = job_timeout
        self.drv = env.build_overlay_driver("fesrv", DRV_SRC)
        self.stats = {"jobs": 0, "server_deaths": 0, "timeouts": 0, "cli_confirmations": 0}

    def _spawn(self):
        e = dict(os.environ)
        e["FERRET_LIBS_PATH"] = self.env.libs
        e["NO_COLOR"] = "1"
        e["GOMAXPROCS"] = "2"
        e["TMPDIR"] = self.env.root
        return subprocess.Popen([self.drv], stdin=subprocess.PIPE, stdout=subprocess.PIPE,
                                stderr=subprocess.DEVNULL, env=e, cwd=self.env.root, text=True, bufsize=1)

    def _run_chunk(self, items, results):
        """items: list of (idx, job). Streams the whole chunk through one server process (no per-job
        round trip); if the server dies or reports a hang, the job in flight is marked and the rest of
        the chunk is given to a fresh server."""
        pending = list(items)
        e = dict(os.environ)
        e["FERRET_LIBS_PATH"] = self.env.libs
        e["NO_COLOR"] = "1"
        e["GOMAXPROCS"] = "2"
        e["TMPDIR"] = self.env.root
        e["FESRV_JOB_TIMEOUT_MS"] = str(int(self.job_timeout * 1000))
        while pending:
            inp = "".join(json.dumps(dict(job, id=idx)) + "\n" for idx, job in pending)
            try:
                p = subprocess.run([self.drv], input=inp, capture_output=True, text=True, env=e, cwd=self.env.root,
                                   timeout=self.job_timeout * 3 + 2.0 * len(pending))
                out = p.stdout
            except subprocess.TimeoutExpired as ex:
                out = ex.stdout if isinstance(ex.stdout, str) else (ex.stdout or b"").decode("utf-8", "replace")
            last_started = None
            hang = None
            for ln in out.split("\n"):
                if not ln.startswith("{"):
                    continue
                try:
                    o = json.loads(ln)
                except Exception:
                    continue
                if "start" in o:
                    last_started = o["start"]
                elif o.get("hang"):
                    hang = o["id"]
                elif "id" in o:
                    results[o["id"]] = o
            remaining = [it for it in pending if results[it[0]] is None]
            if not remaining:
                break
            if hang is not None:
                culprit = hang
                self.stats["timeouts"] += 1
                results[culprit] = {"srv": "TIMEOUT"}
            else:
                culprit = last_started if (last_started is not None and results[last_started] is None) \
                    else remaining[0][0]
                self.stats["server_deaths"] += 1
                results[culprit] = {"srv": "DIED"}
            pending = [it for it in remaining if it[0] != culprit]

    def compile_many(self, jobs, cli_timeout=60):
        """jobs: list of dict(entry, backend='qbe'|'wasm', skip=bool, out=path|None).
        Returns a list of observation dicts shaped like Env.compile's."""
        jobs = list(jobs)
        results = [None] * len(jobs)
        items = list(enumerate(jobs))
        n = max(1, min(self.n, (len(items) + 19) // 20))
        chunks = [items[i::n] for i in range(n)]
        ths = [threading.Thread(target=self._run_chunk, args=(c, results)) for c in chunks if c]
        for t in ths:
            t.start()
        for t in ths:
            t.join()
        self.stats["jobs"] += len(jobs)
        obs = []
        redo = []
        for i, (j, r) in enumerate(zip(jobs, results)):
            o = self._classify(j, r)
            if o is None:
                redo.append(i)
            obs.append(o)

        def confirm(i):                      # confirm alone through the real CLI
            j = jobs[i]
            o = self.env.compile(j["entry"], target="wasm" if j.get("backend") == "wasm" else "native",
                                 out=j.get("out"), typecheck_only=bool(j.get("skip")), timeout=cli_timeout)
            o["via"] = "cli"
            return i, o
        self.stats["cli_confirmations"] += len(redo)
        from . import core
        for i, o in core.pmap(confirm, redo, workers=8):
            obs[i] = o
        return obs

    def _classify(self, j, r):
        if r is None or "srv" in r or r.get("panic"):
            return None
        text = envmod.strip_ansi((r.get("stdout") or "") + "\n" + (r.get("stderr") or ""))
        errs = envmod.diag_errors(text)
        out = j.get("out")
        art = bool(out) and os.path.exists(out) and os.path.getsize(out) > 0
        skip = bool(j.get("skip"))
        if r["success"] and not errs and (skip or art):
            cls = "ACCEPT"
        elif (not r["success"]) and errs and not art:
            cls = "REJECT"
        else:
            return None
        return {"cls": cls, "rc": 0 if r["success"] else 1, "text": text, "errors": errs, "artifact": art,
                "wall": 0.0, "via": "srv"}
