"""Fixed corpus of feature programs for the FerretSem family, written as ASTs (the source text is rendered
from the AST, the expected behaviour is computed by the specification).  Covers what the random generator
does not: strings, methods with borrowed receivers, enums and match, recursion, results with catch,
nested aggregates, break / continue, by-value copies of nested values, references to fields and elements."""
from .progen import BYNAME, lit_ast, tyj

I32 = BYNAME["i32"]


def L(v, t="i32"):
    return lit_ast(BYNAME[t], v)


def V(n):
    return {"k": "var", "n": n}


def B(op, l, r, t="i32"):
    return {"k": "bin", "op": op, "l": l, "r": r, "ty": tyj(BYNAME[t])}


def C(op, l, r):
    return {"k": "cmp", "op": op, "l": l, "r": r}


def LET(n, ty, e):
    return {"k": "let", "n": n, "dty": ty, "e": e}


def SET(lv, e):
    return {"k": "assign", "lv": lv, "e": e}


def P(e):
    return {"k": "print", "e": e}


def F(e, f):
    return {"k": "field", "e": e, "f": f}


def IX(e, i):
    return {"k": "index", "e": e, "i": i if isinstance(i, dict) else L(i)}


def CALL(f, *args, method=False):
    d = {"k": "call", "f": f, "args": list(args)}
    if method:
        d["method"] = True
    return d


def S(**fs):
    return {"k": "struct", "fs": [{"n": k, "e": v} for k, v in fs.items()]}


def A(*es):
    return {"k": "array", "es": list(es)}


def IF(c, t, e=()):
    return {"k": "if", "c": c, "t": list(t), "e": list(e)}


def WHILE(c, b):
    return {"k": "while", "c": c, "b": list(b)}


def RET(e):
    return {"k": "ret", "e": e}


def STR(s):
    return {"k": "str", "v": s}


def FN(params, ptys, rty, body):
    return {"params": params, "ptys": ptys, "rty": rty or "", "body": body}


def ADDR(e, mut=True):
    return {"k": "addr", "e": e, "mut": mut}


def ENUM(name, idx):
    d = L(idx)
    d["enum"] = name
    return d


def programs():
    out = []

    # recursion + truncating division
    out.append(("recursion", {"types": [], "funcs": {
        "fact": FN(["n"], ["i64"], "i64", [IF(C("<=", V("n"), L(1, "i64")), [RET(L(1, "i64"))]),
                                            RET(B("*", V("n"), CALL("fact", B("-", V("n"), L(1, "i64"), "i64")), "i64"))]),
        "fib": FN(["n"], ["i32"], "i32", [IF(C("<", V("n"), L(2)), [RET(V("n"))]),
                                          RET(B("+", CALL("fib", B("-", V("n"), L(1))), CALL("fib", B("-", V("n"), L(2)))))]),
        "gcd": FN(["a", "b"], ["i32", "i32"], "i32", [IF(C("==", V("b"), L(0)), [RET(V("a"))]),
                                                       RET(CALL("gcd", V("b"), B("%", V("a"), V("b"))))])},
        "main": [P(CALL("fact", L(20, "i64"))), P(CALL("fact", L(21, "i64"))), P(CALL("fib", L(15))), P(CALL("gcd", L(1071), L(462))),
                 LET("m", "i32", CALL("gcd", L(17), L(5))), P(B("/", B("-", L(0), V("m")), L(2))),
                 LET("k", "i32", B("-", L(0), B("+", V("m"), L(6)))), P(B("%", V("k"), L(3))), P(B("/", V("k"), L(2)))]}))

    # strings and bools printed, left-to-right evaluation of call arguments with visible effects
    out.append(("strings_and_order", {"types": [], "funcs": {
        "say": FN(["x"], ["i32"], "i32", [P(V("x")), RET(V("x"))]),
        "add3": FN(["a", "b", "c"], ["i32", "i32", "i32"], "i32", [RET(B("+", B("+", V("a"), V("b")), V("c")))])},
        "main": [P(STR("start")), P(CALL("add3", CALL("say", L(1)), CALL("say", L(2)), CALL("say", L(3)))),
                 LET("t", "i32", B("-", CALL("say", L(10)), CALL("say", L(4)))), P(V("t")),
                 LET("ok", "bool", C("<", CALL("say", L(5)), CALL("say", L(6)))), P(V("ok")), P(STR("end"))]}))

    # methods with mutable and shared borrowed receivers; struct passed and returned by value
    out.append(("methods", {"types": [{"name": "Counter", "fields": [{"n": "Value", "ty": "i32"}, {"n": "Step", "ty": "i8"}]}], "funcs": {
        "Counter.inc": FN(["c"], ["&'Counter"], None, [SET(F(V("c"), "Value"), B("+", F(V("c"), "Value"), {"k": "cast", "e": F(V("c"), "Step"), "ty": tyj(I32)}))]),
        "Counter.get": FN(["c"], ["&Counter"], "i32", [RET(F(V("c"), "Value"))]),
        "bump": FN(["c"], ["Counter"], "Counter", [SET(F(V("c"), "Value"), B("*", F(V("c"), "Value"), L(10))), RET(V("c"))])},
        "main": [LET("c", "Counter", S(Value=L(0), Step=L(3, "i8"))),
                 {"k": "expr", "e": CALL("Counter.inc", ADDR(V("c")), method=True)},
                 {"k": "expr", "e": CALL("Counter.inc", ADDR(V("c")), method=True)},
                 P(CALL("Counter.get", ADDR(V("c"), False), method=True)),
                 LET("d", "Counter", CALL("bump", V("c"))), P(F(V("d"), "Value")), P(F(V("c"), "Value")),
                 SET(F(V("d"), "Step"), L(-1, "i8")), {"k": "expr", "e": CALL("Counter.inc", ADDR(V("d")), method=True)},
                 P(F(V("d"), "Value")), P(F(V("c"), "Step"))]}))

    # enums and match, match without a matching arm falling to the default, nested match in a loop
    out.append(("enum_match", {"types": [{"name": "Status", "enum": ["Pending", "Active", "Completed"]}], "funcs": {},
        "main": [LET("s", "Status", ENUM("Status::Active", 1)),
                 {"k": "match", "e": V("s"), "arms": [{"dflt": False, "p": ENUM("Status::Pending", 0), "b": [P(STR("pending"))]},
                                                      {"dflt": False, "p": ENUM("Status::Active", 1), "b": [P(STR("active"))]},
                                                      {"dflt": True, "p": L(0), "b": [P(STR("other"))]}]},
                 SET(V("s"), ENUM("Status::Completed", 2)),
                 {"k": "match", "e": V("s"), "arms": [{"dflt": False, "p": ENUM("Status::Pending", 0), "b": [P(STR("pending"))]},
                                                      {"dflt": True, "p": L(0), "b": [P(STR("other"))]}]},
                 LET("i", "i32", L(0)),
                 WHILE(C("<", V("i"), L(4)), [
                     {"k": "match", "e": V("i"), "arms": [{"dflt": False, "p": L(0), "b": [P(STR("zero"))]},
                                                          {"dflt": False, "p": L(2), "b": [P(STR("two"))]},
                                                          {"dflt": True, "p": L(0), "b": [P(V("i"))]}]},
                     SET(V("i"), B("+", V("i"), L(1)))])]}))

    # results with catch: fallback value, handler block that prints, ok path
    out.append(("results", {"types": [], "funcs": {
        "divide": {"params": ["a", "b"], "ptys": ["i32", "i32"], "rty": "str ! i32", "body": [
            IF(C("==", V("b"), L(0)), [{"k": "reterr", "e": STR("division by zero")}]),
            {"k": "retok", "e": B("/", V("a"), V("b"))}]}},
        "main": [LET("a", "i32", {"k": "catch", "call": CALL("divide", L(10), L(2)), "n": "e", "h": [], "fb": L(-1)}), P(V("a")),
                 LET("b", "i32", {"k": "catch", "call": CALL("divide", L(10), L(0)), "n": "e", "h": [], "fb": L(-1)}), P(V("b")),
                 LET("c", "i32", {"k": "catch", "call": CALL("divide", L(7), L(0)), "n": "e", "h": [P(V("e")), P(STR("handled"))], "fb": L(-2)}), P(V("c")),
                 LET("d", "i32", {"k": "catch", "call": CALL("divide", L(-7), L(2)), "n": "e", "h": [P(V("e"))], "fb": L(0)}), P(V("d"))]}))

    # nested aggregates: struct in struct, fixed array of structs, struct holding a fixed array; copies are deep
    out.append(("nested_values", {"types": [{"name": "In", "fields": [{"n": "A", "ty": "i8"}, {"n": "B", "ty": "i64"}]},
                                           {"name": "Out", "fields": [{"n": "X", "ty": "u16"}, {"n": "I", "ty": "In"}, {"n": "Y", "ty": "u8"}]},
                                           {"name": "Arr", "fields": [{"n": "N", "ty": "i16"}, {"n": "E", "ty": "[3]i32"}]}], "funcs": {
        "touch": FN(["o"], ["Out"], "i64", [SET(F(F(V("o"), "I"), "B"), L(99, "i64")), RET(F(F(V("o"), "I"), "B"))])},
        "main": [LET("o", "Out", S(X=L(65535, "u16"), I=S(A=L(-128, "i8"), B=L(-9223372036854775808, "i64")), Y=L(255, "u8"))),
                 LET("p", "Out", V("o")), SET(F(F(V("p"), "I"), "A"), L(7, "i8")),
                 P(F(F(V("o"), "I"), "A")), P(F(F(V("p"), "I"), "A")), P(F(F(V("p"), "I"), "B")), P(F(V("p"), "X")), P(F(V("p"), "Y")),
                 P(CALL("touch", V("o"))), P(F(F(V("o"), "I"), "B")),
                 LET("xs", "[2]In", A(S(A=L(1, "i8"), B=L(2, "i64")), S(A=L(3, "i8"), B=L(4, "i64")))),
                 LET("ys", "[2]In", V("xs")), SET(F(IX(V("ys"), 1), "B"), L(40, "i64")),
                 P(F(IX(V("xs"), 1), "B")), P(F(IX(V("ys"), 1), "B")), P(F(IX(V("ys"), 0), "A")),
                 LET("h", "Arr", S(N=L(-5, "i16"), E=A(L(10), L(20), L(30)))),
                 LET("g", "Arr", V("h")), SET(IX(F(V("g"), "E"), 2), L(31)),
                 P(IX(F(V("h"), "E"), 2)), P(IX(F(V("g"), "E"), 2)), P(F(V("g"), "N")), P(IX(F(V("g"), "E"), -3))]}))

    # whole-value assignment from a literal that reads its own target: right-hand side first, then the store
    out.append(("aggregate_assign", {"types": [{"name": "P", "fields": [{"n": "X", "ty": "i32"}, {"n": "Y", "ty": "i32"}]},
                                               {"name": "W", "fields": [{"n": "In", "ty": "P"}, {"n": "K", "ty": "i64"}]}], "funcs": {},
        "main": [LET("p", "P", S(X=L(1), Y=L(2))), SET(V("p"), S(X=F(V("p"), "Y"), Y=F(V("p"), "X"))), P(F(V("p"), "X")), P(F(V("p"), "Y")),
                 SET(V("p"), S(X=L(5), Y=B("+", F(V("p"), "X"), L(100)))), P(F(V("p"), "X")), P(F(V("p"), "Y")),
                 LET("a", "[3]i32", A(L(1), L(2), L(3))), SET(V("a"), A(IX(V("a"), 2), IX(V("a"), 1), IX(V("a"), 0))),
                 P(IX(V("a"), 0)), P(IX(V("a"), 1)), P(IX(V("a"), 2)),
                 LET("w", "W", S(In=S(X=L(7), Y=L(8)), K=L(9, "i64"))),
                 SET(F(V("w"), "In"), S(X=F(F(V("w"), "In"), "Y"), Y=F(F(V("w"), "In"), "X"))),
                 P(F(F(V("w"), "In"), "X")), P(F(F(V("w"), "In"), "Y")), P(F(V("w"), "K"))]}))

    # && and || evaluate both operands (no short circuit): effects of the right operand always happen
    def LG(op, l, r):
        return {"k": "logic", "op": op, "l": l, "r": r}

    def BL(v):
        return {"k": "bool", "v": v}
    out.append(("logic_effects", {"types": [], "funcs": {
        "audit": FN(["x", "r"], ["i32", "bool"], "bool", [P(V("x")), RET(V("r"))])},
        "main": [LET("a", "bool", LG("&&", BL(False), CALL("audit", L(1), BL(True)))), P(V("a")),
                 LET("b", "bool", LG("||", BL(True), CALL("audit", L(2), BL(False)))), P(V("b")),
                 LET("c", "bool", LG("&&", BL(True), CALL("audit", L(3), BL(True)))), P(V("c")),
                 LET("d", "bool", LG("||", BL(False), CALL("audit", L(4), BL(False)))), P(V("d")),
                 LET("n", "i32", L(5)),
                 LET("e", "bool", LG("&&", C(">", V("n"), L(9)), CALL("audit", L(6), BL(True)))), P(V("e")),
                 IF(LG("||", CALL("audit", L(7), BL(True)), CALL("audit", L(8), BL(True))), [P(STR("then"))], [P(STR("else"))]),
                 LET("f", "bool", LG("&&", {"k": "not", "e": BL(True)}, CALL("audit", L(9), BL(True)))), P(V("f"))]}))

    # break / continue, nested loops, for with a computed range
    out.append(("loops", {"types": [], "funcs": {},
        "main": [LET("i", "i32", L(0)), LET("acc", "i32", L(0)),
                 WHILE({"k": "bool", "v": True}, [
                     SET(V("i"), B("+", V("i"), L(1))),
                     IF(C("==", B("%", V("i"), L(2)), L(0)), [{"k": "continue"}]),
                     IF(C(">", V("i"), L(7)), [{"k": "break"}]),
                     SET(V("acc"), B("+", V("acc"), V("i"))), P(V("acc"))]),
                 P(V("i")),
                 LET("n", "i32", L(3)),
                 {"k": "for", "n": "a", "ty": tyj(I32), "lo": L(0), "hi": V("n"), "b": [
                     {"k": "for", "n": "b", "ty": tyj(I32), "lo": V("a"), "hi": V("n"), "b": [
                         IF(C("==", V("b"), L(2)), [{"k": "continue"}]), P(B("+", B("*", V("a"), L(10)), V("b")))]}]}]}))

    # references to fields and array elements, write-through, reference parameters
    out.append(("references", {"types": [{"name": "Pt", "fields": [{"n": "X", "ty": "i32"}, {"n": "Y", "ty": "i32"}]}], "funcs": {
        "setx": FN(["p", "v"], ["&'Pt", "i32"], None, [SET(F(V("p"), "X"), V("v"))]),
        "incr": FN(["r"], ["&'i32"], None, [LET("x", "i32", V("r")), SET(V("r"), B("+", V("x"), L(1)))]),
        "sum": FN(["p"], ["&Pt"], "i32", [RET(B("+", F(V("p"), "X"), F(V("p"), "Y")))])},
        "main": [LET("p", "Pt", S(X=L(1), Y=L(2))),
                 {"k": "expr", "e": CALL("setx", ADDR(V("p")), L(50))}, P(F(V("p"), "X")), P(CALL("sum", ADDR(V("p"), False))),
                 LET("n", "i32", L(41)), {"k": "expr", "e": CALL("incr", ADDR(V("n")))}, P(V("n")),
                 LET("xs", "[3]i32", A(L(1), L(2), L(3))),
                 {"k": "expr", "e": CALL("incr", ADDR(IX(V("xs"), 1)))}, P(IX(V("xs"), 1)), P(IX(V("xs"), 0)), P(IX(V("xs"), 2)),
                 {"k": "expr", "e": CALL("incr", ADDR(F(V("p"), "Y")))}, P(F(V("p"), "Y")), P(F(V("p"), "X"))]}))

    # dynamic arrays: append in a loop, len, negative index, element write, out-of-range panic at the end
    out.append(("dynamic_arrays", {"types": [], "funcs": {},
        "main": [LET("xs", "[]i64", A(L(5, "i64"))), LET("i", "i32", L(0)),
                 WHILE(C("<", V("i"), L(5)), [{"k": "append", "lv": V("xs"), "e": B("*", {"k": "cast", "e": V("i"), "ty": tyj(BYNAME["i64"])}, L(1000000000000, "i64"), "i64")},
                                              SET(V("i"), B("+", V("i"), L(1)))]),
                 P({"k": "len", "e": V("xs")}), P(IX(V("xs"), -1)), P(IX(V("xs"), 0)), SET(IX(V("xs"), -6), L(-1, "i64")), P(IX(V("xs"), 0)),
                 P(STR("before")), P(IX(V("xs"), V("i"))), P(IX(V("xs"), B("+", V("i"), L(1)))), P(STR("not reached"))]}))

    # optionals: none / some, coalescing, tests printed directly (no intermediate binding), optional fields,
    # optional parameters and returns, copies of structs holding optionals
    NONE = {"k": "none"}

    def SOME(e):
        return {"k": "some", "e": e}

    def COAL(e, d):
        return {"k": "coal", "e": e, "d": d}

    def ISNONE(e, neg=False):
        return {"k": "isnone", "e": e, "neg": neg}
    out.append(("optional_print", {"types": [{"name": "Rec", "fields": [{"n": "A", "ty": "u8"}, {"n": "O", "ty": "i64?"}, {"n": "Z", "ty": "u16"}]}], "funcs": {
        "pick": FN(["f"], ["bool"], "i64?", [IF(V("f"), [LET("x", "i64", L(-77, "i64")), RET(SOME(V("x")))]), RET(NONE)]),
        "orzero": FN(["o"], ["i64?"], "i64", [LET("z", "i64", L(0, "i64")), RET(COAL(V("o"), V("z")))])},
        "main": [LET("d", "i64", L(5, "i64")), LET("o", "i64?", NONE), LET("p", "i64?", SOME(L(4, "i64"))),
                 P(ISNONE(V("o"))), P(ISNONE(V("p"))), P(ISNONE(V("p"), True)), P(COAL(V("o"), V("d"))), P(COAL(V("p"), V("d"))),
                 SET(V("o"), SOME(L(9000000000, "i64"))), P(COAL(V("o"), V("d"))), P(ISNONE(V("o"))),
                 SET(V("p"), NONE), P(COAL(V("p"), V("d"))), P(ISNONE(V("p"), True)),
                 LET("r", "Rec", S(A=L(200, "u8"), O=NONE, Z=L(60000, "u16"))),
                 P(F(V("r"), "A")), P(ISNONE(F(V("r"), "O"))), P(F(V("r"), "Z")),
                 SET(F(V("r"), "O"), SOME(L(-1, "i64"))), P(F(V("r"), "A")), P(COAL(F(V("r"), "O"), V("d"))), P(F(V("r"), "Z")),
                 LET("c", "Rec", V("r")), SET(F(V("r"), "O"), NONE), P(COAL(F(V("c"), "O"), V("d"))), P(COAL(F(V("r"), "O"), V("d"))),
                 LET("g1", "i64?", CALL("pick", {"k": "bool", "v": True})), LET("g2", "i64?", CALL("pick", {"k": "bool", "v": False})),
                 P(COAL(V("g1"), V("d"))), P(COAL(V("g2"), V("d"))), P(CALL("orzero", V("g1"))), P(CALL("orzero", V("g2"))),
                 P({"k": "len", "e": STR("four")})]}))

    # range loops with a step: upward, downward, zero and wrong-direction steps; steps that are casts whose result has
    # another sign than their operand (the direction of the loop is that of the value actually added); a step
    # variable that changes after its loop
    def FORSTEP(n, lo, hi, st, body):
        return {"k": "forstep", "n": n, "ty": tyj(I32), "lo": lo, "hi": hi, "st": st, "b": body}

    def CAST(e, t="i32"):
        return {"k": "cast", "e": e, "ty": tyj(BYNAME[t])}
    out.append(("range_steps", {"types": [], "funcs": {},
        "main": [LET("lo", "i32", L(0)), LET("hi", "i32", L(7)), LET("s2", "i32", L(2)), LET("m3", "i32", L(-3)), LET("z", "i32", L(0)),
                 FORSTEP("i", V("lo"), V("hi"), V("s2"), [P(V("i"))]), P(STR("-")),
                 FORSTEP("j", V("hi"), V("lo"), V("m3"), [P(V("j"))]), P(STR("-")),
                 FORSTEP("k", V("lo"), V("hi"), V("z"), [P(V("k"))]), P(STR("-")),
                 FORSTEP("q", V("hi"), V("lo"), V("s2"), [P(V("q"))]), P(STR("-")),
                 LET("w1", "i64", L(4294967295, "i64")),          # as i32: -1
                 FORSTEP("a", V("hi"), V("lo"), CAST(V("w1")), [P(V("a"))]), P(STR("-")),
                 LET("w2", "i64", L(-4294967294, "i64")),         # as i32: 2
                 FORSTEP("b", V("lo"), V("hi"), CAST(V("w2")), [P(V("b"))]), P(STR("-")),
                 LET("w3", "i32", L(200)),                        # as i8: -56
                 LET("lo8", "i8", L(0, "i8")), LET("hi8", "i8", L(100, "i8")),
                 {"k": "forstep", "n": "c", "ty": tyj(BYNAME["i8"]), "lo": V("lo8"), "hi": V("hi8"), "st": CAST(V("w3"), "i8"), "b": [P(V("c"))]},
                 P(STR("-")),
                 LET("w4", "i64", L(4294967296, "i64")),          # as i32: 0
                 FORSTEP("d", V("lo"), V("hi"), CAST(V("w4")), [P(V("d"))]), P(STR("-")),
                 SET(V("s2"), L(-1)), SET(V("m3"), L(1)), P(V("s2"))]}))

    # by-value fixed-array and large-integer parameters: stores in the callee stay in the callee
    out.append(("byvalue_array_param", {"types": [], "funcs": {
        "bump": FN(["p"], ["[3]i32"], "i32", [SET(IX(V("p"), 0), L(126)), SET(IX(V("p"), 2), B("+", IX(V("p"), 2), L(1))),
                                                RET(B("+", IX(V("p"), 0), IX(V("p"), 2)))]),
        },
        "main": [LET("v", "[3]i32", A(L(18), L(35), L(52))), P(CALL("bump", V("v"))), P(IX(V("v"), 0)), P(IX(V("v"), 1)), P(IX(V("v"), 2))]}))
    out.append(("byvalue_wide_param", {"types": [], "funcs": {
        "wide": FN(["w"], ["i128"], "i128", [SET(V("w"), B("+", V("w"), L(1, "i128"), "i128")), RET(V("w"))])},
        "main": [LET("b", "i128", L(170141183460469231731687303715884105726, "i128")), P(CALL("wide", V("b"))), P(V("b"))]}))
    return out


def witnesses():
    """Programs that reproduce recorded findings of the FerretSem family (KNOWN_FINDINGS.json, keys
    C01|witness|<name>): run on every invocation; the generator does not produce their class."""
    out = []
    out.append(("incdec_dynamic_element", {"types": [], "funcs": {},
        "main": [LET("d", "[]i64", A(L(5, "i64"), L(6, "i64"))),
                 {"k": "opassign", "op": "+", "lv": IX(V("d"), 0), "e": L(1, "i64"), "ty": tyj(BYNAME["i64"]), "incdec": True},
                 P(IX(V("d"), 0)), P(IX(V("d"), 1))]}))
    out.append(("opassign_wide_element", {"types": [], "funcs": {},
        "main": [LET("a", "[3]i256", A(L(2, "i256"), L(1, "i256"), L(-2, "i256"))),
                 {"k": "opassign", "op": "-", "lv": IX(V("a"), 2), "e": L(3, "i256"), "ty": tyj(BYNAME["i256"])},
                 P(IX(V("a"), 2)), P(IX(V("a"), 0))]}))
    return out
