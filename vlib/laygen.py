"""C18: from a type expression (as enumerated by spec/layout/LayoutGen.tla) to a program that stores a
distinctive value into every component of a value of that type, one component at a time, and reads every
component, every discriminant and the neighbouring locals back after each store; copies the value as a whole
(binding, assignment, element copy, by-value parameter, return value) and checks that the copy is complete and
independent.  The program is an AST of FerretSem: what it must print is decided by the specification."""
from . import progen

BY = progen.BYNAME


def leafval(name, j, r):
    """A value of the leaf type whose every byte is distinctive for (leaf number j, round r)."""
    if name == "bool":
        return (j + r) % 2 == 0
    if name == "str":
        return "s%d_%d" % (j, r)
    _, signed, bits = BY[name]
    nb = bits // 8
    bs = bytes(((0x11 * (j + 1) + 0x35 * r + 0x07 * i + 1) & 0xFF) for i in range(nb))
    return int.from_bytes(bs, "little", signed=signed)


def lit(name, v):
    if name == "bool":
        return {"k": "bool", "v": v}
    if name == "str":
        return {"k": "str", "v": v}
    return progen.lit_ast(BY[name], v)


class Plan:
    def __init__(self, t):
        self.t = t
        self.types = []          # struct declarations, inner first
        self.names = {}          # id(node) -> type name
        self._name(t)

    def _name(self, t):
        for k in t["kids"]:
            self._name(k)
        if t["k"] == "st":
            nm = "T%d" % len(self.types)
            self.names[id(t)] = nm
            self.types.append({"name": nm, "fields": [{"n": "F%d" % (i + 1), "ty": self.tyname(k)} for i, k in enumerate(t["kids"])]})

    def tyname(self, t):
        k = t["k"]
        if k == "p":
            return t["n"]
        if k == "st":
            return self.names[id(t)]
        if k == "ar":
            return "[%d]%s" % (t["a"], self.tyname(t["kids"][0]))
        if k == "op":
            return self.tyname(t["kids"][0]) + "?"
        raise ValueError(k)

    # ---- units: the assignable components (primitive leaves and optionals), with their places
    def units(self, t, place):
        k = t["k"]
        if k in ("p", "op"):
            return [(place, t)]
        out = []
        if k == "st":
            for i, kid in enumerate(t["kids"]):
                out += self.units(kid, {"k": "field", "e": place, "f": "F%d" % (i + 1)})
        elif k == "ar":
            for i in range(t["a"]):
                out += self.units(t["kids"][0], {"k": "index", "e": place, "i": progen.lit_ast(BY["i32"], i)})
        return out

    def containers(self, t, place, root=True):
        """Non-root structs and arrays (assignable as a whole)."""
        out = []
        k = t["k"]
        if k in ("st", "ar") and not root:
            out.append((place, t))
        if k == "st":
            for i, kid in enumerate(t["kids"]):
                out += self.containers(kid, {"k": "field", "e": place, "f": "F%d" % (i + 1)}, False)
        elif k == "ar":
            for i in range(t["a"]):          # every element position: the stride matters from index 1 on
                out += self.containers(t["kids"][0], {"k": "index", "e": place, "i": progen.lit_ast(BY["i32"], i)}, False)
        return out

    def value(self, t, ctr, r):
        """An expression of type t whose leaves are numbered from ctr[0] on, round r."""
        k = t["k"]
        if k == "p":
            j = ctr[0]
            ctr[0] += 1
            return lit(t["n"], leafval(t["n"], j, r))
        if k == "st":
            return {"k": "struct", "fs": [{"n": "F%d" % (i + 1), "e": self.value(kid, ctr, r)} for i, kid in enumerate(t["kids"])]}
        if k == "ar":
            return {"k": "array", "es": [self.value(t["kids"][0], ctr, r) for _ in range(t["a"])]}
        if k == "op":
            return {"k": "some", "e": self.value(t["kids"][0], ctr, r)}
        raise ValueError(k)


def var(n):
    return {"k": "var", "n": n}


def has(t, pred):
    return pred(t) or any(has(k, pred) for k in t["kids"])


def wasm_ok(t):
    return not has(t, lambda x: x["k"] in ("op", "rs") or (x["k"] == "p" and x["n"] in BY and BY[x["n"]][2] > 64))


def program(t):
    if t["k"] == "rs":
        return result_program(t)
    pl = Plan(t)
    tn = pl.tyname(t)
    main, funcs = [], {}
    dfl = {}            # payload type name -> default variable

    def default_for(pt):
        n = pl.tyname(pt)
        if n not in dfl:
            dv = "d%d" % len(dfl)
            dfl[n] = dv
            main.append({"k": "let", "n": dv, "dty": n, "e": pl.value(pt, [90], 0)})
        return dfl[n]

    tmpc = [0]

    def observe(out, root, extra=()):
        for place, ut in pl.units(t, var(root)):
            if ut["k"] == "p":
                out.append({"k": "print", "e": place})
            else:
                pt = ut["kids"][0]
                out.append({"k": "print", "e": {"k": "isnone", "e": place, "neg": False}})
                co = {"k": "coal", "e": place, "d": var(default_for(pt))}
                if pt["k"] == "p":
                    out.append({"k": "print", "e": co})
                else:
                    tmpc[0] += 1
                    tv = "t%d" % tmpc[0]
                    out.append({"k": "let", "n": tv, "dty": pl.tyname(pt), "e": co})
                    for p2, u2 in pl.units(pt, var(tv)):
                        out.append({"k": "print", "e": p2})
        for g in ("g1", "g2", "g3") + tuple(extra):
            out.append({"k": "print", "e": var(g)})

    # defaults first (so that later statements find them declared)
    for _, ut in pl.units(t, var("v")):
        if ut["k"] == "op":
            default_for(ut["kids"][0])
    main.append({"k": "let", "n": "g1", "dty": "u64", "e": lit("u64", 0xA5A5A5A5A5A5A5A5)})
    main.append({"k": "let", "n": "g2", "dty": "u8", "e": lit("u8", 0x5A)})
    main.append({"k": "let", "n": "v", "dty": tn, "e": pl.value(t, [0], 0)})
    main.append({"k": "let", "n": "g3", "dty": "u64", "e": lit("u64", 0x3C3C3C3C3C3C3C3C)})
    observe(main, "v")
    us = pl.units(t, var("v"))
    # one store at a time
    for j, (place, ut) in enumerate(us):
        main.append({"k": "assign", "lv": place, "e": pl.value(ut, [j], j + 1)})
        observe(main, "v")
    # discriminants
    for j, (place, ut) in enumerate(us):
        if ut["k"] == "op":
            main.append({"k": "assign", "lv": place, "e": {"k": "none"}})
            observe(main, "v")
            main.append({"k": "assign", "lv": place, "e": pl.value(ut, [j], 20)})
            observe(main, "v")
    # whole-value copy by binding: complete and independent
    main.append({"k": "let", "n": "c", "dty": tn, "e": var("v")})
    for j, (place, ut) in enumerate(us):
        main.append({"k": "assign", "lv": place, "e": pl.value(ut, [j], 30)})
    observe(main, "c")
    observe(main, "v")
    # whole-value assignment back
    main.append({"k": "assign", "lv": var("v"), "e": var("c")})
    observe(main, "v")
    # containers assigned as a whole from a literal, element copies
    for n, (place, ct) in enumerate(pl.containers(t, var("v"))):
        main.append({"k": "let", "n": "w%d" % n, "dty": pl.tyname(ct), "e": pl.value(ct, [40 + n], 40)})
        main.append({"k": "assign", "lv": place, "e": var("w%d" % n)})
        observe(main, "v")
    if t["k"] == "ar" or has(t, lambda x: x["k"] == "ar"):
        for place, at in arrays(pl, t, var("v")):
            i0 = {"k": "index", "e": place, "i": progen.lit_ast(BY["i32"], 0)}
            i1 = {"k": "index", "e": place, "i": progen.lit_ast(BY["i32"], at["a"] - 1)}
            main.append({"k": "assign", "lv": i0, "e": i1})
            observe(main, "v")
            # ... and into the last position, from a fresh value and from the first element
            tmpc[0] += 1
            ev = "x%d" % tmpc[0]
            main.append({"k": "let", "n": ev, "dty": pl.tyname(at["kids"][0]), "e": pl.value(at["kids"][0], [70], 70)})
            main.append({"k": "assign", "lv": i1, "e": var(ev)})
            observe(main, "v")
            if at["a"] > 2:
                im = {"k": "index", "e": place, "i": progen.lit_ast(BY["i32"], 1)}
                main.append({"k": "assign", "lv": im, "e": i0})
                observe(main, "v")
    # by-value parameter and return value
    if t["k"] in ("st", "ar"):
        body = []
        up = pl.units(t, var("p"))
        body.append({"k": "assign", "lv": up[0][0], "e": pl.value(up[0][1], [0], 60)})
        if len(up) > 1:
            body.append({"k": "assign", "lv": up[-1][0], "e": pl.value(up[-1][1], [len(up) - 1], 61)})
        for place, ut in up:
            if ut["k"] == "p":
                body.append({"k": "print", "e": place})
        funcs["take"] = {"params": ["p"], "ptys": [tn], "body": body}
        main.append({"k": "expr", "e": {"k": "call", "f": "take", "args": [var("v")]}})
        observe(main, "v")
        funcs["make"] = {"params": [], "ptys": [], "rty": tn, "body": [
            {"k": "let", "n": "x", "dty": tn, "e": pl.value(t, [0], 50)}, {"k": "ret", "e": var("x")}]}
        main.append({"k": "assign", "lv": var("v"), "e": {"k": "call", "f": "make", "args": []}})
        observe(main, "v")
    return {"types": pl.types, "funcs": funcs, "main": main}


def arrays(pl, t, place):
    out = []
    if t["k"] == "ar":
        out.append((place, t))
        out += arrays(pl, t["kids"][0], {"k": "index", "e": place, "i": progen.lit_ast(BY["i32"], 0)})
    elif t["k"] == "st":
        for i, kid in enumerate(t["kids"]):
            out += arrays(pl, kid, {"k": "field", "e": place, "f": "F%d" % (i + 1)})
    return out


def result_program(t):
    """Result types: a function returns ok(value) or err(value); the caller observes which one arrived (the
    discriminant), every component of the payload, and its own locals around the call."""
    okT, erT = t["kids"]
    pl = Plan({"k": "st", "n": "", "a": 2, "kids": [okT, erT]})      # names the struct types of both payloads
    pl.types.pop()                                                   # the synthetic root itself is not declared
    okn, ern = pl.tyname(okT), pl.tyname(erT)
    funcs = {"mk": {"params": ["f"], "ptys": ["bool"], "rty": "%s ! %s" % (ern, okn), "body": [
        {"k": "if", "c": var("f"), "t": [{"k": "let", "n": "e", "dty": ern, "e": pl.value(erT, [10], 1)},
                                          {"k": "reterr", "e": var("e")}], "e": []},
        {"k": "let", "n": "x", "dty": okn, "e": pl.value(okT, [0], 1)},
        {"k": "retok", "e": var("x")}]}}

    def show(root, ty):
        return [{"k": "print", "e": place} for place, ut in pl.units(ty, var(root)) if ut["k"] == "p"]
    guards = [{"k": "print", "e": var(g)} for g in ("g1", "g2", "g3")]
    # the handler leaves the function: works for every payload type
    funcs["use"] = {"params": ["f"], "ptys": ["bool"], "body": [
        {"k": "let", "n": "g1", "dty": "u64", "e": lit("u64", 0xA5A5A5A5A5A5A5A5)},
        {"k": "let", "n": "g2", "dty": "u8", "e": lit("u8", 0x5A)},
        {"k": "let", "n": "g3", "dty": "u64", "e": lit("u64", 0x3C3C3C3C3C3C3C3C)},
        {"k": "let", "n": "v", "dty": "", "e": {"k": "catch", "call": {"k": "call", "f": "mk", "args": [var("f")]}, "n": "e2",
                                                "h": [{"k": "print", "e": {"k": "str", "v": "err"}}] + show("e2", erT) + guards + [{"k": "retvoid"}],
                                                "fb": {"k": "bool", "v": False}, "nofb": True, "ind": 2}},
        {"k": "print", "e": {"k": "str", "v": "ok"}}] + show("v", okT) + guards}
    main = [{"k": "expr", "e": {"k": "call", "f": "use", "args": [{"k": "bool", "v": False}]}},
            {"k": "expr", "e": {"k": "call", "f": "use", "args": [{"k": "bool", "v": True}]}},
            {"k": "expr", "e": {"k": "call", "f": "use", "args": [{"k": "bool", "v": False}]}}]
    if okT["k"] == "p":
        # with a fallback value (primitive payloads): both outcomes bound into the caller's frame between guards
        okt = okT["n"]
        main += [
            {"k": "let", "n": "g1", "dty": "u64", "e": lit("u64", 0xA5A5A5A5A5A5A5A5)},
            {"k": "let", "n": "d", "dty": okt, "e": lit(okt, leafval(okt, 5, 2))},
            {"k": "let", "n": "g2", "dty": "u8", "e": lit("u8", 0x5A)},
            {"k": "let", "n": "a", "dty": okt, "e": {"k": "catch", "call": {"k": "call", "f": "mk", "args": [{"k": "bool", "v": False}]},
                                                      "n": "e", "h": [], "fb": var("d")}},
            {"k": "let", "n": "g3", "dty": "u64", "e": lit("u64", 0x3C3C3C3C3C3C3C3C)},
            {"k": "print", "e": var("a")},
            {"k": "let", "n": "b", "dty": okt, "e": {"k": "catch", "call": {"k": "call", "f": "mk", "args": [{"k": "bool", "v": True}]},
                                                      "n": "e3", "h": [{"k": "print", "e": {"k": "str", "v": "handled"}}], "fb": var("d"), "ind": 2}},
            {"k": "print", "e": var("b")},
            {"k": "print", "e": var("a")},
            {"k": "print", "e": var("g1")}, {"k": "print", "e": var("g2")}, {"k": "print", "e": var("g3")},
        ]
    return {"types": pl.types, "funcs": funcs, "main": main}


def dyn_program(t, grow=9):
    """Dynamic array of elements of type t: appended literals, copies of its own elements appended through a mutable
    reference (the element is read from the array that the append may move), element assignment; all components of
    all elements read back after every step."""
    pl = Plan(t)
    tn = pl.tyname(t)
    main, funcs = [], {}
    i32 = BY["i32"]

    def idx(root, j):
        return {"k": "index", "e": var(root), "i": progen.lit_ast(i32, j)}

    cnt = [0]

    def observe(out, n):
        for j in range(n):
            cnt[0] += 1
            ev = "e%d" % cnt[0]            # the element is copied out first (components of elements of dynamic arrays are not places)
            out.append({"k": "let", "n": ev, "dty": tn, "e": idx("xs", j)})
            for place, ut in pl.units(t, var(ev)):
                if ut["k"] == "p":
                    out.append({"k": "print", "e": place})
        out.append({"k": "print", "e": {"k": "len", "e": var("xs")}})
        out.append({"k": "print", "e": var("g1")})
    funcs["dup"] = {"params": ["r", "i"], "ptys": ["&'[]" + tn, "i32"], "body": [
        {"k": "append", "lv": var("r"), "viaref": True, "e": {"k": "index", "e": var("r"), "i": var("i")}}]}
    main.append({"k": "let", "n": "g1", "dty": "u64", "e": lit("u64", 0xA5A5A5A5A5A5A5A5)})
    main.append({"k": "let", "n": "xs", "dty": "[]" + tn, "e": {"k": "array", "es": [pl.value(t, [0], 0)]}})
    n = 1
    observe(main, n)
    for step in range(grow):
        if step % 3 == 2:
            main.append({"k": "let", "n": "n%d" % step, "dty": tn, "e": pl.value(t, [step], 10 + step)})
            main.append({"k": "append", "lv": var("xs"), "e": var("n%d" % step)})
        else:
            # copy of the first / the last element, through the reference
            main.append({"k": "expr", "e": {"k": "call", "f": "dup", "args": [{"k": "addr", "e": var("xs"), "mut": True},
                                                                            progen.lit_ast(i32, 0 if step % 3 == 0 else n - 1)]}})
        n += 1
        observe(main, n)
        if step == 4:
            main.append({"k": "let", "n": "m4", "dty": tn, "e": pl.value(t, [3], 33)})
            main.append({"k": "assign", "lv": idx("xs", 0), "e": var("m4")})
            observe(main, n)
    return {"types": pl.types, "funcs": funcs, "main": main}
