"""Thin wrapper around TLC (DESIGN §3.4). Every call: timeout, private metadir, scratch copy of the
spec directory, -Xss512m for the recursive interpreter. Returns parsed statistics and emitted cases."""
import json
import os
import re
import shutil
import subprocess
import time

JAR = "/opt/veriftools/tla/tla2tools.jar"
CM = "/opt/veriftools/tla/CommunityModules-deps.jar"
VERIF = os.path.dirname(os.path.dirname(os.path.abspath(__file__)))
SPEC = os.path.join(VERIF, "spec")


EXTRA_JOPTS = []


class TLCError(Exception):
    pass


def _classpath():
    cps = [JAR]
    d = os.path.dirname(JAR)
    for f in sorted(os.listdir(d)):
        if f.endswith(".jar") and os.path.join(d, f) != JAR:
            cps.append(os.path.join(d, f))
    return ":".join(cps)


_STATS = re.compile(r"(\d+) states generated, (\d+) distinct states found, (\d+) states left on queue")
_DEPTH = re.compile(r"The depth of the complete state graph search is (\d+)")


def run(workdir, module, cfg, spec_dirs, workers="auto", timeout=600, extra_files=None,
        simulate=None, depth=None, seed=None, coverage=False, env_extra=None, heap="8g",
        deadlock=True, dfs=False, case_prefix="@@CASE ", extra_args=None):
    """Copy spec_dirs' *.tla/*.cfg into workdir and run TLC on module with cfg.

    Returns dict(ok, violated, states, distinct, depth, cases, out, wall, rc)."""
    os.makedirs(workdir, exist_ok=True)
    for d in spec_dirs:
        dd = d if os.path.isabs(d) else os.path.join(SPEC, d)
        for f in os.listdir(dd):
            if f.endswith(".tla") or f.endswith(".cfg"):
                shutil.copy(os.path.join(dd, f), os.path.join(workdir, f))
    for src, name in (extra_files or []):
        if os.path.abspath(src) != os.path.abspath(os.path.join(workdir, name)):
            shutil.copy(src, os.path.join(workdir, name))
    meta = os.path.join(workdir, "meta_" + cfg.replace(".cfg", "") + "_%d" % int(time.time() * 1000))
    jopts = ["-Xss512m", "-Xmx" + heap, "-XX:+UseParallelGC", "-Djava.io.tmpdir=" + workdir] + list(EXTRA_JOPTS)
    if dfs:
        jopts.append("-Dtlc2.tool.queue.IStateQueue=StateDeque")
    cmd = ["java"] + jopts + ["-cp", _classpath(), "tlc2.TLC", "-metadir", meta,
                              "-workers", str(workers), "-config", cfg, "-noGenerateSpecTE"]
    if not deadlock:
        cmd.append("-deadlock")
    if simulate:
        cmd += ["-simulate", simulate]
        if depth:
            cmd += ["-depth", str(depth)]
        if seed is not None:
            cmd += ["-seed", str(seed)]
    if coverage:
        cmd += ["-coverage", "1"]
    if extra_args:
        cmd += extra_args
    cmd.append(module)
    e = dict(os.environ)
    e.pop("JAVA_TOOL_OPTIONS", None)
    if env_extra:
        e.update(env_extra)
    t0 = time.time()
    try:
        r = subprocess.run(cmd, cwd=workdir, env=e, capture_output=True, text=True, timeout=timeout)
        out, rc, to = r.stdout + r.stderr, r.returncode, False
    except subprocess.TimeoutExpired as ex:
        def _s(b):
            return b.decode("utf-8", "replace") if isinstance(b, bytes) else (b or "")
        out, rc, to = _s(ex.stdout) + _s(ex.stderr), -1, True
    wall = time.time() - t0
    shutil.rmtree(meta, ignore_errors=True)
    cases = []
    for ln in out.split("\n"):
        i = ln.find(case_prefix)
        if i >= 0:
            s = ln[i + len(case_prefix):].strip()
            if s.endswith('"') and ln[:i].endswith('"'):
                s = s[:-1]
            try:
                cases.append(json.loads(s))
            except Exception:
                try:
                    cases.append(json.loads(s.replace('\\"', '"').replace("\\\\", "\\")))
                except Exception:
                    raise TLCError("unparsable case line: " + ln[:300])
    states = distinct = 0
    for m in _STATS.finditer(out):
        states, distinct = int(m.group(1)), int(m.group(2))
    dm = _DEPTH.search(out)
    res = {
        "rc": rc, "timeout": to, "out": out, "wall": wall, "cases": cases,
        "states": states, "distinct": distinct, "depth": int(dm.group(1)) if dm else None,
        "finished": "Model checking completed. No error has been found." in out
        or ("Finished in" in out and "Error:" not in out),
        "violated": "is violated" in out or "Error: Evaluating assumption" in out
        or "Assumption" in out and "is false" in out,
        "error": "Error:" in out,
    }
    return res


def require_ok(res, what):
    if res["timeout"]:
        raise TLCError("TLC timeout: " + what)
    if res["error"] or not res["finished"]:
        raise TLCError("TLC failed (%s):\n%s" % (what, tail(res["out"])))
    return res


def tail(s, n=60):
    return "\n".join(s.split("\n")[-n:])


def coverage_zero(out):
    """Lines of a -coverage 1 report naming actions/expressions never evaluated."""
    z = []
    for ln in out.split("\n"):
        if re.search(r": 0$", ln.strip()) and ("line" in ln):
            z.append(ln.strip())
    return z
