"""The four meaning-preserving rewrites of C09 on program ASTs (the specification, spec/lang/RewriteCheck.tla,
decides for every produced pair that Run(P) = Run(P'), so a rewrite that is not meaning preserving in FerretSem
is found out there and never blamed on the compiler).

  LitToCall    a literal is replaced by a call of a new function returning that literal
  BindToLocal  a call-free subexpression is bound to a fresh immutable local just before the statement using it
  LetToConst   a `let` that is never assigned, borrowed or appended to becomes `const`
  WrapIfTrue   a suffix of a block, or a single non-declaration statement, is wrapped in `if true { }`
"""
import copy

from .progen import tyname

EXPR_KEYS = ("e", "l", "r", "c", "i", "lo", "hi", "call", "fb")


def _exprs(node, ctx):
    """Yields (holder, key, ctx) for every expression node reachable from an expression."""
    k = node.get("k")
    if k in ("bin", "cmp", "logic"):
        for key in ("l", "r"):
            c2 = dict(ctx, in_logic=ctx.get("in_logic") or k == "logic")
            yield node, key, c2
            yield from _exprs(node[key], c2)
    elif k in ("neg", "not", "cast", "paren", "len", "field"):
        yield node, "e", ctx
        yield from _exprs(node["e"], ctx)
    elif k == "index":
        yield node, "e", ctx
        yield from _exprs(node["e"], ctx)
        c2 = dict(ctx, index=True)
        yield node, "i", c2
        yield from _exprs(node["i"], c2)
    elif k == "call":
        for j in range(len(node["args"])):
            yield node["args"], j, ctx
            yield from _exprs(node["args"][j], ctx)
    elif k == "struct":
        for f in node["fs"]:
            yield f, "e", ctx
            yield from _exprs(f["e"], ctx)
    elif k == "array":
        for j in range(len(node["es"])):
            yield node["es"], j, ctx
            yield from _exprs(node["es"][j], ctx)
    elif k == "addr":
        pass            # the operand is a place
    elif k == "catch":
        yield node, "call", dict(ctx, nocall=True)
        yield from _exprs(node["call"], ctx)
        yield node, "fb", dict(ctx, conditional=True)


def _stmts(block, ctx):
    """Yields (block, index, stmt, ctx) for every statement, depth first."""
    for j, s in enumerate(block):
        yield block, j, s, ctx
        k = s["k"]
        if k == "if":
            yield from _stmts(s["t"], ctx)
            yield from _stmts(s["e"], ctx)
        elif k in ("while", "for", "forstep", "forin", "block"):
            yield from _stmts(s["b"], dict(ctx, loop=ctx.get("loop") or k != "block"))
        elif k == "match":
            for a in s["arms"]:
                yield from _stmts(a["b"], ctx)
        for key in ("e", "c"):
            if isinstance(s.get(key), dict) and s[key].get("k") == "catch" and s[key]["h"]:
                yield from _stmts(s[key]["h"], ctx)


def _stmt_exprs(s):
    """(holder, key, ctx) of the expression roots of one statement, then everything below them."""
    k = s["k"]
    roots = []
    if k in ("let", "print", "expr", "ret", "retok", "reterr"):
        roots.append((s, "e", {}))
    elif k == "assign":
        roots.append((s, "e", {}))
        roots.append((s, "lv", {"place": True}))
    elif k == "append":
        roots.append((s, "e", {}))
    elif k == "if":
        roots.append((s, "c", {}))
    elif k == "while":
        roots.append((s, "c", {"loopcond": True}))
    elif k in ("for", "forstep"):
        roots.append((s, "lo", {}))
        roots.append((s, "hi", {}))
    elif k == "match":
        roots.append((s, "e", {}))
    for h, key, ctx in roots:
        if not ctx.get("place"):
            yield h, key, ctx
            yield from _exprs(h[key], ctx)
        else:                                   # only index expressions inside a place are values
            def places(n):
                if n.get("k") == "index":
                    c2 = dict(ctx, index=True, place=False)
                    yield n, "i", c2
                    yield from _exprs(n["i"], c2)
                    yield from places(n["e"])
                elif n.get("k") in ("field", "paren"):
                    yield from places(n["e"])
            yield from places(h[key])


def _all_blocks(prog):
    yield "main", prog["main"]
    for name, f in prog["funcs"].items():
        yield name, f["body"]


def has_call(e):
    if isinstance(e, dict):
        return e.get("k") in ("call", "catch", "callv", "fnlit") or any(has_call(v) for v in e.values())
    if isinstance(e, list):
        return any(has_call(v) for v in e)
    return False


def expr_type(e):
    k = e["k"]
    if k in ("bin", "neg", "cast", "int"):
        return tyname(e["ty"])
    if k in ("cmp", "logic", "not", "bool"):
        return "bool"
    return None


def sites(prog):
    """All applicable rewrite sites: list of (kind, descriptor).  A descriptor addresses nodes by a path that is
    valid in a deep copy of the program."""
    out = []
    for bname, blk in _all_blocks(prog):
        for block, j, s, sctx in _stmts(blk, {}):
            bpath = _path_of(prog, block)
            # WrapIfTrue: the suffix starting at j, and a single statement that declares nothing
            # (a `return` wrapped in `if true` makes the function fall off its end for the structural rule of C05)
            if not _has_return(block[j:]):
                out.append(("WrapIfTrue", {"block": bpath, "from": j, "to": len(block), "shape": "suffix"}))
            if s["k"] != "let" and not _has_return([s]):
                out.append(("WrapIfTrue", {"block": bpath, "from": j, "to": j + 1, "shape": s["k"]}))
            if s["k"] == "let" and not s.get("const") and _never_changed(prog, bname, s["n"]) and s["dty"] and not s["dty"].startswith("&"):
                out.append(("LetToConst", {"block": bpath, "at": j, "shape": _tyclass(s["dty"])}))
            stmt_has_call = has_call({k: v for k, v in s.items() if k in EXPR_KEYS + ("lv",)})
            for holder, key, ctx in _stmt_exprs(s):
                e = holder[key]
                hp = _path_of(prog, holder)
                if hp is None:
                    continue
                is_lit = (e["k"] == "int" and "enum" not in e) or e["k"] == "bool"
                if is_lit and not ctx.get("index"):
                    shape = s["k"] + ("/loopcond" if ctx.get("loopcond") else "") + ("/logic" if ctx.get("in_logic") else "") + ":" + e["k"]
                    out.append(("LitToCall", {"holder": hp, "key": key, "shape": shape}))
                    # a literal has no effect and depends on nothing: it can be bound first whatever else the statement does
                    if not ctx.get("loopcond") and s["k"] != "while" and not ctx.get("conditional"):
                        out.append(("BindToLocal", {"block": bpath, "at": j, "holder": hp, "key": key,
                                                    "shape": s["k"] + ("/logic" if ctx.get("in_logic") else "") + ":lit-" + e["k"]}))
                if (e["k"] in ("bin", "neg", "cast", "cmp") and not has_call(e) and not stmt_has_call and not ctx.get("loopcond")
                        and not ctx.get("in_logic") and not ctx.get("conditional") and not ctx.get("index") and s["k"] != "while"):
                    out.append(("BindToLocal", {"block": bpath, "at": j, "holder": hp, "key": key, "shape": s["k"] + ":" + e["k"]}))
    return out


def _has_return(stmts):
    if isinstance(stmts, dict):
        return stmts.get("k") in ("ret", "retok", "reterr", "retvoid") or any(_has_return(v) for v in stmts.values())
    if isinstance(stmts, list):
        return any(_has_return(v) for v in stmts)
    return False


def _tyclass(dty):
    if dty.startswith("["):
        return "array"
    if dty == "bool":
        return "bool"
    if dty.endswith("?"):
        return "optional"
    if dty[0] in "iu" and dty[1:].isdigit():
        return "int"
    return "struct"


def _never_changed(prog, bname, name):
    """No assignment rooted at the name, no mutable borrow of it, no append to it anywhere in the function."""
    blk = prog["main"] if bname == "main" else prog["funcs"][bname]["body"]
    bad = [False]

    def root(lv):
        while lv.get("k") in ("field", "index", "paren"):
            lv = lv["e"]
        return lv.get("n")

    def walk(n):
        if isinstance(n, dict):
            if n.get("k") in ("assign", "append", "opassign") and root(n["lv"]) == name:
                bad[0] = True
            if n.get("k") == "addr" and root(n["e"]) == name:      # a constant is not addressable in Ferret
                bad[0] = True
            if n.get("k") == "for" and n.get("n") == name:
                bad[0] = True
            for v in n.values():
                walk(v)
        elif isinstance(n, list):
            for v in n:
                walk(v)
    walk(blk)
    return not bad[0]


def _path_of(prog, target):
    """Path (list of keys / indices) from the program root to a container object, by identity."""
    stack = [(prog, [])]
    while stack:
        node, path = stack.pop()
        if node is target:
            return path
        if isinstance(node, dict):
            for k, v in node.items():
                if isinstance(v, (dict, list)):
                    stack.append((v, path + [k]))
        elif isinstance(node, list):
            for i, v in enumerate(node):
                if isinstance(v, (dict, list)):
                    stack.append((v, path + [i]))
    return None


def _get(prog, path):
    n = prog
    for p in path:
        n = n[p]
    return n


def apply(prog, kind, d, tag=0):
    """Returns the rewritten deep copy."""
    q = copy.deepcopy(prog)
    if kind == "LitToCall":
        h = _get(q, d["holder"])
        lit = h[d["key"]]
        t = "bool" if lit["k"] == "bool" else tyname(lit["ty"])
        name = "lit_%s_%d" % (t, tag)
        q["funcs"][name] = {"params": [], "ptys": [], "rty": t, "body": [{"k": "ret", "e": lit}]}
        h[d["key"]] = {"k": "call", "f": name, "args": []}
    elif kind == "BindToLocal":
        blk = _get(q, d["block"])
        h = _get(q, d["holder"])
        e = h[d["key"]]
        name = "tmp%d" % tag
        h[d["key"]] = {"k": "var", "n": name}
        blk.insert(d["at"], {"k": "let", "n": name, "dty": expr_type(e), "e": e})
    elif kind == "LetToConst":
        _get(q, d["block"])[d["at"]]["const"] = True
    elif kind == "WrapIfTrue":
        blk = _get(q, d["block"])
        body = blk[d["from"]:d["to"]]
        blk[d["from"]:d["to"]] = [{"k": "if", "c": {"k": "bool", "v": True}, "t": body, "e": []}]
    else:
        raise ValueError(kind)
    return q
