"""Shared machinery for the module-loader checks (C15, C14): project rendering from a TLC case,
forced-schedule runs of the hooked compiler, trace collection and batched TLC trace validation."""
import json
import os
import shutil

from . import core, tlc

PRIMES = {"p/m1": 2, "p/m2": 3, "p/m3": 5, "p/m4": 7, "p/m5": 11}
KEEP_EVENTS = {"Claim", "ParseBegin", "LitID", "Parsed", "DepEdge", "ParseEnd", "WaitDone", "Topo"}


def short(m):
    return m.split("/")[-1]


def render_project(case, d, with_io=False, alias=False):
    """Write the project of a TLC case into directory d/p. Returns the entry path and the value the
    program prints (for acyclic projects)."""
    root = os.path.join(d, "p")
    os.makedirs(root, exist_ok=True)
    imports = case["imports"]
    nlits = case.get("nlits", {})
    missing = set(case.get("missing", []))
    memo = {}

    def val(m, stack=()):
        if m in memo:
            return memo[m]
        if m in stack or m in missing:
            return 0
        v = PRIMES[m] + sum(100 * k for k in range(nlits.get(m, 0)))
        for j in imports.get(m, []):
            if j != m:
                v += val(j, stack + (m,))
        memo[m] = v
        return v

    for m, imps in imports.items():
        if m in missing:
            continue
        lines = []
        if with_io and m == case["entry"]:
            lines.append('import "std/io";')
        for j in imps:
            if alias:
                lines.append('import "%s" as a%s;' % (j, short(j)))
            else:
                lines.append('import "%s";' % j)
        body = ["    let r: i32 = %d;" % PRIMES[m]]
        for k in range(nlits.get(m, 0)):
            body.append("    let g%d := fn() -> i32 { return %d; };" % (k, 100 * k))
            body.append("    r = r + g%d();" % k)
        for j in imps:
            if j != m:
                ns = ("a" + short(j)) if alias else short(j)
                body.append("    r = r + %s::F%s();" % (ns, short(j)))
        lines.append("fn F%s() -> i32 {\n%s\n    return r;\n}" % (short(m), "\n".join(body)))
        if m == case["entry"]:
            if with_io:
                lines.append("fn main() {\n    io::Println(F%s());\n}" % short(m))
            else:
                lines.append("fn main() {\n    let x: i32 = F%s();\n}" % short(m))
        with open(os.path.join(root, short(m) + ".fer"), "w") as f:
            f.write("\n".join(lines) + "\n")
    return os.path.join(root, short(case["entry"]) + ".fer"), val(case["entry"])


def sched_lines(case):
    return ["%s|%s|%s" % (s["p"], s["o"], s["a"]) for s in case["sched"]]


def read_trace(path):
    evs = []
    if not os.path.exists(path):
        return evs
    with open(path) as f:
        for ln in f:
            ln = ln.strip()
            if ln:
                try:
                    evs.append(json.loads(ln))
                except Exception:
                    pass
    evs.sort(key=lambda e: e.get("seq", 0))
    return evs


def spec_events(case, evs, with_io=False):
    """Project a recorded run onto the records LoaderTrace consumes: a Reset record with the project,
    then the loader events (function-literal ids only; other literal kinds have their own counters
    which the specification does not model)."""
    imports = {m: list(v) for m, v in case["imports"].items()}
    if with_io:
        imports[case["entry"]] = ["std/io"] + imports[case["entry"]]
    out = [{"ev": "Reset", "imports": imports, "nlits": case.get("nlits", {}),
            "missing": case.get("missing", [])}]
    for e in evs:
        if e["ev"] not in KEEP_EVENTS:
            continue
        if e["ev"] == "LitID" and e.get("kind") != "__func_lit__":
            continue
        r = {k: v for k, v in e.items() if k != "seq"}
        if e["ev"] == "Topo" and r.get("sorted") is None:
            r["sorted"] = []
        out.append(r)
    return out


def validate_traces(env, traces, timeout=900, max_fail=8):
    """traces: list of event lists (each starting with Reset). One TLC run over the concatenation;
    on rejection every trace is validated alone to find the rejected ones and the longest accepted
    prefix. Returns (n_ok, failures[list of (index, accepted_prefix_len, next_event)], stats)."""
    def run(batch, name):
        wd = env.tmpdir("ltr")
        with open(os.path.join(wd, "trace.ndjson"), "w") as f:
            for t in batch:
                for e in t:
                    f.write(json.dumps(e) + "\n")
        r = tlc.run(wd, "MC_LoaderTrace", "Trace_Loader.cfg", ["loader"], workers=1, timeout=timeout,
                    deadlock=True)
        ok = r["finished"] and not r["error"]
        nev = sum(len(t) for t in batch)
        if not ok and "TraceAccepted" not in r["out"] and "is violated" not in r["out"]:
            raise tlc.TLCError("trace validation failed to run:\n" + tlc.tail(r["out"], 40))
        inv = None
        for ln in r["out"].split("\n"):
            if "Invariant" in ln and "is violated" in ln:
                inv = ln.strip()
        shutil.rmtree(wd, ignore_errors=True)
        return ok, r, nev, inv

    stats = {"events": 0, "tlc_states": 0}
    if not traces:
        return 0, [], stats
    ok, r, nev, inv = run(traces, "all")
    stats["events"] = nev
    stats["tlc_states"] = r["distinct"]
    if ok:
        return len(traces), [], stats
    # locate: chunks in parallel, then single traces of the first failing chunks, at most max_fail
    failures = []
    n = len(traces)
    csz = max(1, (n + 15) // 16)
    chunks = [list(range(a, min(n, a + csz))) for a in range(0, n, csz)]

    def chunk_ok(ix):
        return run([traces[i] for i in ix], "c")[0]
    bad_chunks = [ix for ix, ok1 in zip(chunks, core.pmap(chunk_ok, chunks, workers=8)) if not ok1]
    stats["failing_chunks"] = len(bad_chunks)
    stats["chunk_size"] = csz
    cand = [i for ix in bad_chunks[:3] for i in ix][:48]

    def one(i):
        ok1, r1, _, inv1 = run([traces[i]], "t%d" % i)
        if ok1:
            return None
        t = traces[i]
        depth = r1["depth"] or 1          # accepted prefix length = diameter - 1
        acc = max(0, depth - 1)
        nxt = t[acc] if acc < len(t) else None
        return (i, acc, nxt, inv1)
    for res in core.pmap(one, cand, workers=8):
        if res is not None and len(failures) < max_fail:
            failures.append(res)
    lower_bound_bad = max(len(failures), len(bad_chunks))
    stats["rejected_traces_lower_bound"] = lower_bound_bad
    return len(traces) - lower_bound_bad, failures, stats
