"""Shared driver for C04 (fixed arrays) and C08 (dynamic arrays, strings): renders IndexScenario cases,
compiles them with the real compiler and compares the observation with the specification's."""
import json
import os
import random

from . import core, fesrv, tlc

HEAD = ('import "std/io";\nfn id(v: i32) -> i32 { return v; }\nfn idu32(v: u32) -> u32 { return v; }\n'
        'fn idu64(v: u64) -> u64 { return v; }\nfn idi64(v: i64) -> i64 { return v; }\n'
        'fn push(r: &\'[]i32, v: i32) -> i32 {\n    append(r, v);\n    return len(r) - 1;\n}\n'
        'fn pushm(r: &\'[]i32, v: i32) -> i32 {\n    append(r, v);\n    return 0 - 1;\n}\n')


def body_lines(case):
    kind, n = case["kind"], case["len0"]
    if kind == "fixed":
        decl = "let x: [%d]i32 = [%s];" % (n, ", ".join(str(10 * j) for j in range(1, n + 1)))
    elif kind == "dyn":
        decl = "let x: []i32 = [%s];" % ", ".join(str(10 * j) for j in range(1, n + 1))
    else:
        decl = 'let x: str = "%s";' % "".join(chr(96 + j) for j in range(1, n + 1))
    b = ["    " + decl]
    nconst = nloop = 0
    for e in case["events"]:
        k = e["k"]
        if k == "let":
            b.append("    let i: i32 = %d;" % e["v"])
        elif k == "set":
            b.append("    i = %d;" % e["v"])
        elif k == "ifset":
            b += ["    if c == 1 {", "        i = %d;" % e["v"], "    }"]
        elif k == "inc":
            b.append("    i = i + 1;")
        elif k == "rdl":
            b.append("    io::Println(x[%d]);" % e["v"])
        elif k == "rdc":
            nconst += 1
            b += ["    const K%d: i32 = %d;" % (nconst, e["v"]), "    io::Println(x[K%d]);" % nconst]
        elif k == "rdo":
            b.append("    io::Println(x[id(%d)]);" % e["v"])
        elif k == "rdw":
            if not (e["ty"] == "u32" and int(e["big"]) > 4294967295):   # (not generated: u32 cannot hold it)
                b.append("    io::Println(x[id%s(%s)]);" % (e["ty"], e["big"]))
            else:
                b.append("    io::Println(x[idu64(%s)]);" % e["big"])
        elif k == "rdi":
            b.append("    io::Println(x[i]);")
        elif k == "rdni":
            b.append("    io::Println(x[-i]);")
        elif k == "defk":
            b.append("    const K: i32 = %d;" % e["v"])
        elif k == "rdk":
            b.append("    io::Println(x[K]);")
        elif k == "rdnk":
            b.append("    io::Println(x[-K]);")
        elif k == "wri":
            b.append("    x[i] = %d;" % e["w"])
        elif k == "wrl":
            b.append("    x[%d] = %d;" % (e["v"], e["w"]))
        elif k == "app":
            b.append("    append(&'x, %d);" % e["w"])
        elif k == "rdp":
            b.append("    io::Println(x[push(&'x, %d)]);" % e["w"])
        elif k == "rdpn":
            b.append("    io::Println(x[pushm(&'x, %d)]);" % e["w"])
        elif k == "len":
            b.append("    io::Println(len(x));")
        elif k in ("xset", "ifxset"):
            lit = ('"%s"' % "".join(chr(106 + j) for j in range(1, e["n"] + 1))) if kind == "str" else \
                "[%s]" % ", ".join(str(100 + 10 * j) for j in range(1, e["n"] + 1))
            b += (["    x = %s;" % lit] if k == "xset" else ["    if c == 1 {", "        x = %s;" % lit, "    }"])
        elif k == "loop":
            nloop += 1
            b += ["    let j%d: i32 = 0;" % nloop, "    while j%d < 2 {" % nloop, "        io::Println(x[i]);",
                  "        i = i + 1;", "        j%d = j%d + 1;" % (nloop, nloop), "    }"]
    return b


def render(case, c):
    return HEAD + "fn run(c: i32) {\n" + "\n".join(body_lines(case)) + "\n}\nfn main() {\n    run(id(%d));\n}\n" % c


def render_batch(items):
    """items: list of (case, c). One program running every scenario, separated by marker lines."""
    src = [HEAD]
    main = ["fn main() {"]
    for n, (case, c) in enumerate(items):
        src.append("fn run%d(c: i32) {\n" % n + "\n".join(body_lines(case)) + "\n}")
        main += ["    io::Println(\"==%d\");" % n, "    run%d(id(%d));" % (n, c)]
    main.append("}")
    return "\n".join(src + main) + "\n"


def ev_key(case):
    def one(e):
        k = e["k"]
        if k in ("let", "set", "ifset", "rdl", "rdc", "rdo", "defk"):
            return "%s(%d)" % (k, e["v"])
        if k == "rdw":
            return "rdw(%s,%s)" % (e["ty"], e["big"])
        if k == "wrl":
            return "wrl(%d)" % e["v"]
        if k in ("xset", "ifxset"):
            return "%s(%d)" % (k, e["n"])
        return k
    return case["kind"] + ":" + ";".join(one(e) for e in case["events"])


def klass(case):
    """Spec-level class of a scenario: how the failing index was produced."""
    ks = [e["k"] for e in case["events"]]
    tags = []
    for t, names in (("reassigned", ("set", "inc")), ("branch", ("ifset",)), ("loop", ("loop",)), ("append", ("app", "rdp", "rdpn")),
                     ("newvalue", ("xset", "ifxset")),
                     ("write", ("wri", "wrl"))):
        if any(k in names for k in ks):
            tags.append(t)
    last = ks[-1]
    le = case["events"][-1]
    sign = ""
    if last == "rdw":
        # wide opaque indices form their own classes, independent of what happened before
        return "%s|rdw-%s-%s|wide" % (case["kind"], le["ty"], "ge2p32" if int(le["big"]) >= 2 ** 32 else "lt2p32")
    if "v" in le and last in ("rdl", "rdc", "rdo", "wrl"):
        sign = "neg" if le["v"] < 0 else "pos"
    if any(k == "defk" for k in ks):
        tags.append("namedconst")
    return "%s|%s%s|%s" % (case["kind"], last, sign, "+".join(tags) or "straight")


def expected_tokens(case, run):
    if case["kind"] == "str":
        out = []
        lens = [e["k"] for e in case["events"]]
        # str elements print as characters, len prints as a number: rebuild from the event list
        vals = list(run["out"])
        return [chr(v) if 97 <= v <= 122 else str(v) for v in vals]
    return [str(v) for v in run["out"]]


def run_check(pid, tier, seed, replay, kinds, strict_accept):
    chk = core.Check(pid, tier, seed, "model_checking")
    from .env import Env
    env = Env()
    env.build_all()
    rnd = random.Random(seed)
    cases, states, trans = [], 0, 0
    for kind in kinds:
        cfg = "Gen_Index_%s4.cfg" % kind
        r = tlc.require_ok(tlc.run(env.tmpdir("tlc"), "IndexScenario", cfg, ["lang"], workers=16, timeout=1800), cfg)
        states += r["distinct"]
        trans += r["states"]
        seen = set()
        for c in r["cases"]:
            c["key"] = ev_key(c)
            if c["key"] not in seen:
                seen.add(c["key"])
                cases.append(c)
    if replay:
        with open(replay) as f:
            rk = json.load(f)["replay"]["scenario"]
        cases = [c for c in cases if c["key"] == rk]
    else:
        strata = {}
        for c in cases:
            strata.setdefault(klass(c), []).append(c)
        cases = []
        per = (6 if kinds == ["fixed"] else 3) if tier == "quick" else 150
        for k in sorted(strata):
            v = strata[k]
            rnd.shuffle(v)
            cases += v[:per]
    progs = []
    for c in cases:
        cs = (0, 1) if any(e["k"] in ("ifset", "ifxset") for e in c["events"]) else (0,)
        for cv in cs:
            d = env.tmpdir(pid.lower())
            p = os.path.join(d, "m.fer")
            with open(p, "w") as f:
                f.write(render(c, cv))
            progs.append((c, cv, p))
    pool = fesrv.Pool(env)
    obs = pool.compile_many([{"entry": p, "skip": True} for _, _, p in progs])

    def build_run(item):
        c, cv, p = item
        exe = p[:-4] + ".out"
        o = env.compile(p, out=exe)
        if o["cls"] != "ACCEPT":
            return o, None
        return o, env.run_native(exe)
    acc = [it for it, o in zip(progs, obs) if o["cls"] == "ACCEPT"]
    solo = [it for it in acc if it[0]["runs"][it[1]]["oob"]]            # expected to panic: run alone
    inr = [it for it in acc if not it[0]["runs"][it[1]]["oob"]]
    ran = {}
    batches = [inr[i:i + 16] for i in range(0, len(inr), 16)]

    def run_batch(b):
        d = env.tmpdir(pid.lower() + "b")
        p = os.path.join(d, "m.fer")
        with open(p, "w") as f:
            f.write(render_batch([(c, cv) for c, cv, _ in b]))
        exe = os.path.join(d, "m.out")
        o = env.compile(p, out=exe)
        if o["cls"] != "ACCEPT":
            return b, None
        r = env.run_native(exe)
        if r["cls"] != "EXIT0":
            return b, None
        parts = {}
        cur = None
        for ln in r["out"].split("\n"):
            if ln.startswith("=="):
                cur = int(ln[2:])
                parts[cur] = []
            elif cur is not None and ln.strip() != "":
                parts[cur].append(ln.strip())
        return b, parts
    redo = []
    for b, parts in core.pmap(run_batch, batches, workers=12):
        if parts is None:
            redo += b                      # something in the batch misbehaved: run its members alone
            continue
        for n, it in enumerate(b):
            ran[id(it)] = (None, {"cls": "EXIT0", "out": "\n".join(parts.get(n, [])), "err": "", "rc": 0})
    todo = solo + redo
    for it, res in zip(todo, core.pmap(build_run, todo, workers=12)):
        ran[id(it)] = res
    cnt = {"rejected_oob": 0, "rejected_inrange": 0, "panic_ok": 0, "value_ok": 0, "void": 0, "t0028": 0}
    for it, o in zip(progs, obs):
        c, cv, p = it
        run = c["runs"][cv]
        exp = expected_tokens(c, run)
        key = "%s|%s" % (pid, klass(c))
        rep = {"scenario": c["key"], "c": cv, "program": render(c, cv)}
        if o["cls"] in ("CRASH", "HANG", "INCONSISTENT"):
            chk.fail(key + "|compiler-" + o["cls"], "compiler %s on scenario %s" % (o["cls"], c["key"]), rep)
            continue
        if o["cls"] == "REJECT":
            codes = {e["code"] for e in o["errors"]}
            if "T0028" in codes:
                cnt["t0028"] += 1
            if run["oob"]:
                cnt["rejected_oob"] += 1
            elif strict_accept:
                own = [e for e in o["errors"] if e["code"] in ("T0009",) or "out of bounds" in e["msg"]]
                if own:
                    chk.fail(key + "|mis-rejected", "every index is valid for the current length (c=%d) but the compiler "
                             "rejects the program: %s  [%s]" % (cv, own[0]["msg"][:90], c["key"]), rep)
                else:
                    cnt["void"] += 1
            else:
                cnt["rejected_inrange"] += 1        # allowed for fixed arrays (constant-index rule)
            continue
        o2, r = ran.get(id(it), (None, None))
        if r is None:
            cnt["void"] += 1                        # accepted by the front end, not built by the back end
            continue
        got = r["out"].split()
        if run["oob"]:
            if r["cls"] == "PANIC" and "index out of bounds" in r["err"] and got == exp:
                cnt["panic_ok"] += 1
            elif r["cls"] == "PANIC" and not strict_accept and exp[:len(got)] == got:
                cnt["panic_ok"] += 1               # C04 does not speak about delivery of earlier lines
            else:
                chk.fail(key + "|oob-not-stopped", "an access outside the %s (c=%d) neither is rejected nor stops the "
                         "program with an index-out-of-bounds panic after the earlier lines: exit %s, stderr %r, printed "
                         "%s, lines before the access %s  [%s]" % ("array" if c["kind"] != "str" else "string", cv,
                                                                  r["cls"], r["err"][:60], got[:8], exp[:8], c["key"]), rep)
        else:
            if r["cls"] == "EXIT0" and got == exp:
                cnt["value_ok"] += 1
            else:
                chk.fail(key + "|wrong-element", "all indices are in range (c=%d) but the program prints %s (exit %s) where "
                         "the indexed elements are %s  [%s]" % (cv, got[:10], r["cls"], exp[:10], c["key"]), rep)
    for c in cases[:3]:
        chk.sample({"scenario": c["key"], "runs": c["runs"]})
    chk.cov.update({
        "states": states, "transitions": trans, "traces_validated_against_impl": len(progs),
        "scenarios": len(cases), "programs": len(progs), "outcomes": cnt,
        "evaluations": len(progs), "distinct_nontrivial": len({c["key"] for c in cases}),
        "rule": "one scenario per transition of the abstract index-state graph (<= 4 events: literal / const / let / "
                "reassigned / branch-dependent / loop-carried / opaque indices in [-len-1, len], writes, appends, len), "
                "stratified by spec-level class; both values of the opaque parameter when a branch is present",
    })
    return chk.finish()
