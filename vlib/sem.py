"""Runs batches of (program AST, recorded behaviour) through spec/lang/SemCheck.tla."""
import json
import os
import shutil

from . import core, tlc


def judge(env, cases, chunk=60, workers=15, module="SemCheck", fields=None):
    """cases: list of dict(id, prog, out(list of str), halt). Returns {id: verdict dict or None}.
    module / fields: another trace-validation module of spec/lang and the record fields it reads."""
    if len(cases) < chunk * workers:          # keep every worker busy
        chunk = max(8, -(-len(cases) // workers))
    chunks = [cases[i:i + chunk] for i in range(0, len(cases), chunk)]

    def run(ch):
        wd = env.tmpdir("sem")
        with open(os.path.join(wd, "cases.ndjson"), "w") as f:
            for c in ch:
                if fields:
                    f.write(json.dumps({k: c[k] for k in fields}) + "\n")
                else:
                    f.write(json.dumps({"id": c["id"], "prog": c["prog"], "out": c["out"], "halt": c["halt"],
                                        "out2": c.get("out2", c["out"]), "halt2": c.get("halt2", c["halt"])}) + "\n")
        r = tlc.run(wd, module, module + ".cfg", ["lang", "lib"], workers=1, timeout=1800, case_prefix="@@OUT ", heap="3g")
        out = {o["id"]: o for o in r["cases"]}
        err = None
        if not (r["finished"] and not r["error"]):
            ls = [l for l in r["out"].split("\n") if "@@OUT" not in l]
            i = [k for k, l in enumerate(ls) if "rror" in l]
            err = "\n".join(ls[i[0]:i[0] + 12]) if i else "\n".join(ls[-8:])
        shutil.rmtree(wd, ignore_errors=True)
        return ch, out, err
    res = {}
    errors = []
    for ch, out, err in core.pmap(run, chunks, workers=workers):
        for c in ch:
            res[c["id"]] = out.get(c["id"])
        if err:
            # the case after the last verdict is the one the interpreter could not evaluate
            missing = [c["id"] for c in ch if c["id"] not in out]
            errors.append((missing[0] if missing else None, err))
            # evaluate the rest of the chunk one by one
            for c in ch:
                if c["id"] not in out and c["id"] != (missing[0] if missing else None):
                    _, o1, e1 = run([c])
                    res[c["id"]] = o1.get(c["id"])
    return res, errors
