"""Check skeleton: verdict bookkeeping, known findings, evidence, parallel map (DESIGN §3.7–3.10)."""
import concurrent.futures as cf
import json
import os
import sys
import time
import traceback

VERIF = os.path.dirname(os.path.dirname(os.path.abspath(__file__)))
EVID = os.environ.get("VERIF_EVIDENCE_DIR") or os.path.join(VERIF, "evidence")
KF_FILE = os.path.join(VERIF, "KNOWN_FINDINGS.json")
REPLAY_DIR = os.environ.get("VERIF_REPLAY_DIR") or os.path.join(VERIF, "replays")
NCPU = os.cpu_count() or 4


class Undecided(Exception):
    """The check could not decide (tool failure, vacuity …): exit 2, never a violation."""


def pmap(fn, items, workers=None):
    items = list(items)
    if not items:
        return []
    with cf.ThreadPoolExecutor(max_workers=workers or NCPU) as ex:
        return list(ex.map(fn, items))


def load_known():
    if not os.path.exists(KF_FILE):
        return {"findings": [], "fixed": []}
    with open(KF_FILE) as f:
        return json.load(f)


class Check:
    def __init__(self, pid, tier, seed, level):
        self.pid = pid
        self.tier = tier
        self.seed = seed
        self.level = level
        self.t0 = time.time()
        self.cov = {}
        self.assumptions = []
        self.violations = []       # (key, description, replay-object)
        self.known_hit = {}        # key -> description
        kf = load_known()
        self.known = {f["key"]: f for f in kf.get("findings", []) if f.get("property") == pid}
        self.samples = []
        self.notes = []
        try:
            os.remove(os.path.join(REPLAY_DIR, "%s_all_violation_keys.txt" % pid))
        except OSError:
            pass

    # ---- verdict bookkeeping
    def fail(self, key, what, replay):
        """A confirmed disagreement of the real code with the spec. key = spec-level case key."""
        if key in self.known:
            if key not in self.known_hit:
                self.known_hit[key] = what
            return
        self.violations.append((key, what, replay))

    def sample(self, obj, cap=6):
        if len(self.samples) < cap:
            self.samples.append(obj)

    # ---- finishing
    def finish(self):
        os.makedirs(EVID, exist_ok=True)
        cov = dict(self.cov)
        cov.setdefault("samples", self.samples if self.samples else ["(none)"])
        cov["known_findings_reproduced"] = sorted(self.known_hit.keys())
        cov["known_findings_not_reproduced"] = sorted(k for k in self.known if k not in self.known_hit)
        if self.notes:
            cov["notes"] = self.notes
        if self.level == "translation_validation":
            # disagreements between the recorded behaviour and the specification that were examined one by
            # one (re-run alone, classified as violation or listed finding)
            cov.setdefault("disagreements_checked", len(self.violations) + len(self.known_hit))
            if "programs" not in cov and "evaluations" in cov:
                cov["programs"] = cov["evaluations"]
        ev = {
            "property_id": self.pid, "tier": self.tier, "seed": self.seed, "level": self.level,
            "coverage": cov, "assumptions": self.assumptions,
            "wall_s": round(time.time() - self.t0, 2), "violations": len(self.violations),
        }
        with open(os.path.join(EVID, self.pid + ".json"), "w") as f:
            json.dump(ev, f, indent=1, sort_keys=True, default=str)
            f.write("\n")
        for k in sorted(self.known_hit):
            print("KNOWN-FINDING: property=%s %s %s" % (self.pid, k, self.known_hit[k]))
        if self.violations:
            os.makedirs(REPLAY_DIR, exist_ok=True)
            with open(os.path.join(REPLAY_DIR, "%s_all_violation_keys.txt" % self.pid), "w") as f:
                for key, what, replay in self.violations:
                    f.write("%s :: %s\n" % (key, what))
            seen = set()
            n = 0
            for key, what, replay in self.violations:
                if key in seen:
                    continue
                seen.add(key)
                n += 1
                if n > 25:
                    break
                safe = "".join(c if c.isalnum() or c in "-_." else "_" for c in key)[:100]
                path = os.path.join(REPLAY_DIR, "%s_%s.json" % (self.pid, safe))
                with open(path, "w") as f:
                    json.dump({"property": self.pid, "key": key, "what": what, "replay": replay,
                               "tier": self.tier, "seed": self.seed}, f, indent=1, default=str)
                print("VIOLATION property=%s replay=%s" % (self.pid, path))
                print("  key=%s :: %s" % (key, what))
            if len(seen) < len(set(v[0] for v in self.violations)):
                print("  (%d distinct violation keys in total)" % len(set(v[0] for v in self.violations)))
            return 1
        print("OK property=%s tier=%s seed=%d wall=%.1fs %s" % (
            self.pid, self.tier, self.seed, time.time() - self.t0,
            json.dumps({k: v for k, v in cov.items() if isinstance(v, (int, float, bool))})))
        return 0


def main_wrapper(fn):
    """Run a check function; map exceptions to exit 2 (undecided), never to a violation."""
    try:
        rc = fn()
    except Undecided as e:
        print("UNDECIDED: %s" % e)
        rc = 2
    except Exception:
        traceback.print_exc()
        print("UNDECIDED: internal error in the check machinery")
        rc = 2
    sys.stdout.flush()
    return rc
