SPECIFICATION Spec
CONSTANTS
  Mode = "mut"
  N = 120
  L = 3
INVARIANT Emit
CHECK_DEADLOCK FALSE
