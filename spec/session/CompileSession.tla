--------------------------- MODULE CompileSession ---------------------------
(* C13 — the observable protocol of one compiler run (internal/pipeline/pipeline.go,
   internal/compiler/compiler.go, main.go).

   trace.ndjson concatenates recorded runs.  A run is
     Start ; (PhaseBegin(p) | Diag(sev) | ErrorGate(before) | Artifact)* ; Result(success, errors) ; Observed(...)
   where all but the last record come from the hooks (build tag verif) and `Observed` is what the
   driver saw from outside: exit status, number of error diagnostics printed, whether the artifact
   exists, whether code generation was requested, and for each printed error whether its location lies
   inside an input file.
   Protocol (every step is checked, so a run is accepted only if it is a behaviour of this machine):
     - phases begin in pipeline order, each at most once; nothing begins after an error gate;
     - the MIR phase begins only while no error has been reported, code generation only while no
       error has been reported and only when requested;
     - an artifact is written only by a code generation phase of an error-free run;
     - Result.success = (no error reported) and Result.errors = number of error diagnostics reported;
     - Observed:  exit = 0  <=>  no error diagnostic was printed;
                  exit # 0  =>   at least one error diagnostic was printed, all of them counted by the
                                 run, and at least one has a location inside an input file;
                  exit # 0  =>   no artifact is left behind. *)
EXTENDS Integers, Sequences, FiniteSets, TLC, Json

Trace == ndJsonDeserialize("trace.ndjson")
Order == <<"collector", "resolver", "typechecker", "hirgen", "cfg", "hirlower", "mir", "codegen">>
Rank(p) == CASE p = "collector" -> 1 [] p = "resolver" -> 2 [] p = "typechecker" -> 3 [] p = "hirgen" -> 4
             [] p = "cfg" -> 5 [] p = "hirlower" -> 6 [] p = "mir" -> 7 [] p \in {"qbe", "wasm"} -> 8

VARIABLES l, ph, errs, gated, art, res, st
vars == <<l, ph, errs, gated, art, res, st>>
Ev == Trace[l]
IsEvent(e) == l <= Len(Trace) /\ Ev.ev = e /\ l' = l + 1

Init == l = 1 /\ ph = 0 /\ errs = 0 /\ gated = FALSE /\ art = FALSE /\ res = "none" /\ st = "idle"

TStart == /\ IsEvent("Start") /\ st \in {"idle", "observed"}
          /\ ph' = 0 /\ errs' = 0 /\ gated' = FALSE /\ art' = FALSE /\ res' = "none" /\ st' = "running"
TPhase == /\ IsEvent("PhaseBegin") /\ st = "running" /\ ~gated
          /\ Rank(Ev.p) = ph + 1                       \* in order, none skipped, none repeated
          /\ (Rank(Ev.p) >= 7 => errs = 0)             \* MIR and code generation only without errors
          /\ ph' = Rank(Ev.p) /\ UNCHANGED <<errs, gated, art, res, st>>
TDiag == /\ IsEvent("Diag") /\ st = "running"
         /\ errs' = errs + (IF Ev.sev = "error" THEN 1 ELSE 0)
         /\ UNCHANGED <<ph, gated, art, res, st>>
TGate == /\ IsEvent("ErrorGate") /\ st = "running" /\ errs > 0
         /\ gated' = TRUE /\ UNCHANGED <<ph, errs, art, res, st>>
TArtifact == /\ IsEvent("Artifact") /\ st = "running" /\ ph = 8 /\ errs = 0 /\ ~art
             /\ art' = TRUE /\ UNCHANGED <<ph, errs, gated, res, st>>
TResult == /\ IsEvent("Result") /\ st = "running"
           /\ Ev.success = (errs = 0) /\ Ev.errors = errs
           /\ res' = IF Ev.success THEN "ok" ELSE "failed"
           /\ st' = "finished" /\ UNCHANGED <<ph, errs, gated, art>>
InsideInput(x) == x.known /\ x.infile /\ x.line >= 1 /\ x.line <= x.nlines + 1
TObserved == /\ IsEvent("Observed") /\ st = "finished"
             /\ (Ev.exit = 0) = (Ev.printed = 0)
             /\ (Ev.exit = 0) = (res = "ok")
             /\ Ev.printed = errs
             /\ (Ev.exit # 0 => (Ev.printed >= 1 /\ ~Ev.artifact /\ \E i \in 1 .. Len(Ev.locs) : InsideInput(Ev.locs[i])))
             /\ (Ev.artifact => art)
             /\ st' = "observed" /\ UNCHANGED <<ph, errs, gated, art, res>>
Next == TStart \/ TPhase \/ TDiag \/ TGate \/ TArtifact \/ TResult \/ TObserved
Spec == Init /\ [][Next]_vars
TraceAccepted == TLCGet("stats").diameter - 1 = Len(Trace)
=============================================================================
