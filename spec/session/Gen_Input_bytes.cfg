SPECIFICATION Spec
CONSTANTS
  Mode = "bytes"
  N = 120
  L = 3
INVARIANT Emit
CHECK_DEADLOCK FALSE
