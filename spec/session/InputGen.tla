------------------------------ MODULE InputGen ------------------------------
(* C13 — enumerators of the input spaces, as TLA+ state spaces:
     "mut":   token-level mutations  delete(i) dup(i) swap(i) truncate(i) insert(i, t)  for token positions i <= N
     "bytes": all strings of length <= L over lexer-relevant byte classes
     "proj":  small project layouts: for the entry module, two import slots, each one of
              ok / missing / self / mutual / syntaxerror / emptyfile / nomain-ok / malformed paths / remote / duplicate / after-code *)
EXTENDS Integers, Sequences, TLC, Json
CONSTANTS Mode, N, L
InsTok == {";", "{", "}", "(", ")", ",", "let", "fn", "=", "\"", "1", "::", "&'", "!", "catch", "match", "=>", "bs", "'", "bsnl"}
Classes == {"a", "1", " ", "nl", "\"", "'", "/", "*", "{", "@", "hi", "-", ".", "0x", "bs", "tab", "cr"}
ImportKinds == {"none", "ok", "missing", "self", "mutual", "syntaxerr", "emptyfile", "empty_path", "dotdot", "absolute",
                "remote", "dup", "aftercode", "dir", "uppercase_std", "trailing_slash"}
VARIABLE c
Init == CASE Mode = "mut" -> c \in {[op |-> o, i |-> i, t |-> ""] : o \in {"delete", "dup", "swap", "truncate"}, i \in 1 .. N}
                                  \cup {[op |-> "insert", i |-> i, t |-> t] : i \in 1 .. N, t \in InsTok}
          [] Mode = "bytes" -> c \in UNION {[1 .. n -> Classes] : n \in 0 .. L}
          [] Mode = "proj" -> c \in [1 .. 2 -> ImportKinds]
Next == UNCHANGED c
Spec == Init /\ [][Next]_c
Emit == PrintT("@@CASE " \o ToJson([c |-> c]))
=============================================================================
