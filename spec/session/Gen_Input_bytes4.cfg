SPECIFICATION Spec
CONSTANTS
  Mode = "bytes"
  N = 120
  L = 4
INVARIANT Emit
CHECK_DEADLOCK FALSE
