SPECIFICATION Spec
CONSTANTS
  Mode = "proj"
  N = 120
  L = 3
INVARIANT Emit
CHECK_DEADLOCK FALSE
