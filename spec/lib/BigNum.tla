------------------------------- MODULE BigNum -------------------------------
(* Arbitrary-precision naturals and integers in pure TLA+ (TLC integers are 32-bit).
   A natural is a little-endian sequence of base-2^15 digits without high zeros (<<>> is 0).
   A signed integer is a record [neg |-> BOOLEAN, mag |-> natural] with neg = FALSE for zero.
   Used by BigIntApi (C16), Literals (C10) and FerretSem (C01, C02, C09, ...). *)
EXTENDS Integers, Sequences, Bitwise

B == 32768
DB == 15

RECURSIVE Norm(_)
Norm(a) == IF a # <<>> /\ a[Len(a)] = 0 THEN Norm(SubSeq(a, 1, Len(a) - 1)) ELSE a
D(a, i) == IF i <= Len(a) THEN a[i] ELSE 0
MaxI(x, y) == IF x >= y THEN x ELSE y
NZero == <<>>
NOne == <<1>>
NFromInt(n) == IF n = 0 THEN <<>> ELSE IF n < B THEN <<n>> ELSE
               IF n < B * B THEN <<n % B, n \div B>> ELSE <<n % B, (n \div B) % B, n \div (B * B)>>

RECURSIVE AddR(_, _, _, _, _)
AddR(a, b, i, n, c) == IF i > n THEN (IF c = 0 THEN <<>> ELSE <<c>>)
                       ELSE LET s == D(a, i) + D(b, i) + c IN <<s % B>> \o AddR(a, b, i + 1, n, s \div B)
NAdd(a, b) == AddR(a, b, 1, MaxI(Len(a), Len(b)), 0)

RECURSIVE SubR(_, _, _, _, _)
SubR(a, b, i, n, br) == IF i > n THEN <<>>
                        ELSE LET s == D(a, i) - D(b, i) - br IN
                             IF s < 0 THEN <<s + B>> \o SubR(a, b, i + 1, n, 1)
                             ELSE <<s>> \o SubR(a, b, i + 1, n, 0)
NSub(a, b) == Norm(SubR(a, b, 1, Len(a), 0))          \* requires a >= b

RECURSIVE CmpR(_, _, _)
CmpR(a, b, i) == IF i = 0 THEN 0 ELSE IF D(a, i) < D(b, i) THEN -1
                 ELSE IF D(a, i) > D(b, i) THEN 1 ELSE CmpR(a, b, i - 1)
NCmp(a, b) == IF Len(a) < Len(b) THEN -1 ELSE IF Len(a) > Len(b) THEN 1 ELSE CmpR(a, b, Len(a))
NLt(a, b) == NCmp(a, b) < 0
NLe(a, b) == NCmp(a, b) <= 0

RECURSIVE MulSR(_, _, _, _)
MulSR(a, d, i, c) == IF i > Len(a) THEN (IF c = 0 THEN <<>> ELSE <<c>>)
                     ELSE LET p == a[i] * d + c IN <<p % B>> \o MulSR(a, d, i + 1, p \div B)
NMulS(a, d) == IF d = 0 \/ a = <<>> THEN <<>> ELSE MulSR(a, d, 1, 0)      \* 0 <= d < 2^15
RECURSIVE MulR(_, _, _)
MulR(a, b, j) == IF j > Len(b) THEN <<>>
                 ELSE LET rest == MulR(a, b, j + 1)
                      IN NAdd(NMulS(a, b[j]), IF rest = <<>> THEN <<>> ELSE <<0>> \o rest)
NMul(a, b) == IF a = <<>> \/ b = <<>> THEN <<>> ELSE MulR(a, b, 1)

RECURSIVE DivSR(_, _, _, _)
DivSR(a, d, i, r) == IF i = 0 THEN <<<<>>, r>>
                     ELSE LET cur == r * B + a[i]
                              rest == DivSR(a, d, i - 1, cur % d)
                          IN <<rest[1] \o <<cur \div d>>, rest[2]>>
NDivS(a, d) == LET x == DivSR(a, d, Len(a), 0) IN [q |-> Norm(x[1]), r |-> x[2]]   \* 0 < d < 2^16

(* general division by binary shift-subtract (b # 0); fast paths for small operands *)
NBit(a, i) == (D(a, (i \div DB) + 1) \div (2 ^ (i % DB))) % 2
NShl1(a, bit) == LET x == NAdd(a, a) IN IF bit = 1 THEN NAdd(x, <<1>>) ELSE x
RECURSIVE DivR(_, _, _, _, _)
DivR(a, b, i, q, r) == IF i < 0 THEN [q |-> q, r |-> r]
                       ELSE LET r2 == NShl1(r, NBit(a, i)) IN
                            IF NCmp(r2, b) >= 0 THEN DivR(a, b, i - 1, NShl1(q, 1), NSub(r2, b))
                            ELSE DivR(a, b, i - 1, NShl1(q, 0), r2)
NDivMod2(a, b) == IF NCmp(a, b) < 0 THEN [q |-> <<>>, r |-> a]
                  ELSE IF Len(b) = 1 THEN LET x == NDivS(a, b[1]) IN [q |-> x.q, r |-> IF x.r = 0 THEN <<>> ELSE <<x.r>>]
                  ELSE DivR(a, b, Len(a) * DB - 1, <<>>, <<>>)

RECURSIVE ToDecR(_)
ToDecR(a) == IF a = <<>> THEN <<>> ELSE LET x == NDivS(a, 10) IN ToDecR(x.q) \o <<x.r>>
NToDec(a) == IF a = <<>> THEN <<0>> ELSE ToDecR(a)                 \* most significant digit first

RECURSIVE ToBaseR(_, _)
ToBaseR(a, base) == IF a = <<>> THEN <<>> ELSE LET x == NDivS(a, base) IN ToBaseR(x.q, base) \o <<x.r>>
NToBase(a, base) == IF a = <<>> THEN <<0>> ELSE ToBaseR(a, base)   \* digits, most significant first

RECURSIVE FromBaseR(_, _, _, _)
FromBaseR(ds, base, i, acc) == IF i > Len(ds) THEN acc
    ELSE FromBaseR(ds, base, i + 1, NAdd(NMulS(acc, base), IF ds[i] = 0 THEN <<>> ELSE <<ds[i]>>))
NFromBase(ds, base) == FromBaseR(ds, base, 1, <<>>)                \* ds most significant first
NFromDec(ds) == NFromBase(ds, 10)
NFromHex(ds) == NFromBase(ds, 16)

RECURSIVE NPow2(_)
NPow2(k) == IF k < DB THEN <<2 ^ k>> ELSE <<0>> \o NPow2(k - DB)

(* a mod 2^k, a div 2^k, a * 2^k *)
NModPow2(a, k) == LET full == k \div DB   rem == k % DB
                      lo == SubSeq(a, 1, IF Len(a) < full THEN Len(a) ELSE full)
                      hi == IF rem = 0 \/ Len(a) <= full THEN <<>> ELSE <<a[full + 1] % (2 ^ rem)>>
                  IN Norm(lo \o hi)
NShl(a, k) == IF a = <<>> THEN <<>> ELSE
              LET full == k \div DB   rem == k % DB
                  sh == NMulS(a, 2 ^ rem)
              IN [i \in 1 .. full |-> 0] \o sh
NShr(a, k) == LET full == k \div DB   rem == k % DB
                  hi == IF Len(a) <= full THEN <<>> ELSE SubSeq(a, full + 1, Len(a))
              IN IF rem = 0 THEN hi ELSE NDivS(hi, 2 ^ rem).q

(* bitwise operations digit by digit (operands padded to the longer length) *)
RECURSIVE BitR(_, _, _, _, _)
BitR(a, b, i, n, op) == IF i > n THEN <<>>
    ELSE << CASE op = "and" -> D(a, i) & D(b, i)
              [] op = "or"  -> D(a, i) | D(b, i)
              [] op = "xor" -> D(a, i) ^^ D(b, i) >> \o BitR(a, b, i + 1, n, op)
NBitOp(a, b, op) == Norm(BitR(a, b, 1, MaxI(Len(a), Len(b)), op))

(* exponentiation modulo 2^k by squaring; e is a TLC integer *)
RECURSIVE NPowMod2(_, _, _)
NPowMod2(a, e, k) == IF e = 0 THEN NModPow2(<<1>>, k)
                     ELSE LET h == NPowMod2(a, e \div 2, k)
                              s == NModPow2(NMul(h, h), k)
                          IN IF e % 2 = 1 THEN NModPow2(NMul(s, a), k) ELSE s

-----------------------------------------------------------------------------
(* signed integers *)
Z(neg, mag) == [neg |-> neg /\ mag # <<>>, mag |-> mag]
ZFromNat(a) == Z(FALSE, a)
ZNeg(x) == Z(~x.neg, x.mag)
ZAdd(x, y) == IF x.neg = y.neg THEN Z(x.neg, NAdd(x.mag, y.mag))
              ELSE IF NCmp(x.mag, y.mag) >= 0 THEN Z(x.neg, NSub(x.mag, y.mag))
              ELSE Z(y.neg, NSub(y.mag, x.mag))
ZSub(x, y) == ZAdd(x, ZNeg(y))
ZMul(x, y) == Z(x.neg # y.neg, NMul(x.mag, y.mag))
ZCmp(x, y) == IF x.neg /\ ~y.neg THEN -1 ELSE IF ~x.neg /\ y.neg THEN 1
              ELSE IF x.neg THEN NCmp(y.mag, x.mag) ELSE NCmp(x.mag, y.mag)

(* the value denoted by an N-bit pattern u (0 <= u < 2^N) *)
Decode(u, bits, signed) == IF signed /\ NCmp(u, NPow2(bits - 1)) >= 0
                           THEN Z(TRUE, NSub(NPow2(bits), u)) ELSE Z(FALSE, u)
(* the N-bit pattern of an integer: x mod 2^N *)
Encode(x, bits) == LET r == NModPow2(x.mag, bits)
                   IN IF x.neg /\ r # <<>> THEN NSub(NPow2(bits), r) ELSE r
InRange(x, bits, signed) ==
    IF signed THEN (IF x.neg THEN NCmp(x.mag, NPow2(bits - 1)) <= 0 ELSE NCmp(x.mag, NPow2(bits - 1)) < 0)
    ELSE ~x.neg /\ NCmp(x.mag, NPow2(bits)) < 0

(* truncating division checked, not recomputed: q and r are THE quotient and remainder of a by b *)
DivModOK(a, b, q, r) == /\ b.mag # <<>>
                        /\ ZAdd(ZMul(q, b), r) = a
                        /\ NCmp(r.mag, b.mag) < 0
                        /\ (r.mag = <<>> \/ r.neg = a.neg)

ZToDec(x) == [neg |-> x.neg, digits |-> NToDec(x.mag)]
=============================================================================
