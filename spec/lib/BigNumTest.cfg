SPECIFICATION Spec
