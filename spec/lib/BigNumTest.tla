----------------------------- MODULE BigNumTest -----------------------------
(* Self-test of BigNum against native TLC integers on the range where both exist. *)
EXTENDS BigNum, TLC
N(n) == NFromInt(n)
RECURSIVE ToInt(_)
ToInt(a) == IF a = <<>> THEN 0 ELSE a[1] + B * ToInt(Tail(a))
Vals == {0, 1, 2, 7, 255, 256, 32767, 32768, 32769, 65535, 65536, 1000003, 16777215, 46340}
Small == {0, 1, 2, 3, 9, 14, 15, 16, 17, 29, 30}
ASSUME \A x \in Vals : ToInt(N(x)) = x
ASSUME \A x, y \in Vals : x + y < 2147483647 => ToInt(NAdd(N(x), N(y))) = x + y
ASSUME \A x, y \in Vals : x >= y => ToInt(NSub(N(x), N(y))) = x - y
ASSUME \A x, y \in Vals : x <= 46340 /\ y <= 46340 => ToInt(NMul(N(x), N(y))) = x * y
ASSUME \A x, y \in Vals : NCmp(N(x), N(y)) = (IF x < y THEN -1 ELSE IF x > y THEN 1 ELSE 0)
ASSUME \A x \in Vals, k \in Small : ToInt(NModPow2(N(x), k)) = x % (2 ^ k)
ASSUME \A x \in Vals, k \in Small : ToInt(NShr(N(x), k)) = x \div (2 ^ k)
ASSUME \A x \in {0, 1, 2, 7, 255}, k \in {0, 1, 2, 15, 16, 20} : ToInt(NShl(N(x), k)) = x * (2 ^ k)
ASSUME \A x, y \in Vals : ToInt(NBitOp(N(x), N(y), "and")) = x & y
ASSUME \A x, y \in Vals : ToInt(NBitOp(N(x), N(y), "or")) = x | y
ASSUME \A x, y \in Vals : ToInt(NBitOp(N(x), N(y), "xor")) = x ^^ y
ASSUME \A x \in Vals : NFromDec(NToDec(N(x))) = N(x)
ASSUME NToDec(N(1000003)) = <<1, 0, 0, 0, 0, 0, 3>>
ASSUME NFromHex(<<15, 15, 15, 15>>) = N(65535)
ASSUME \A x \in {1, 2, 3, 5, 10}, e \in 0 .. 9 : ToInt(NPowMod2(N(x), e, 20)) = (x ^ e) % (2 ^ 20)
ASSUME Encode(Z(TRUE, N(1)), 8) = N(255) /\ Decode(N(255), 8, TRUE) = Z(TRUE, N(1))
ASSUME Decode(N(128), 8, TRUE) = Z(TRUE, N(128)) /\ Decode(N(127), 8, TRUE) = Z(FALSE, N(127))
ASSUME \A a \in {-7, -1, 0, 1, 7, 100}, b \in {-3, -1, 1, 2, 3} :
         LET za == Z(a < 0, N(IF a < 0 THEN -a ELSE a))  zb == Z(b < 0, N(IF b < 0 THEN -b ELSE b))
             q == IF (a < 0) = (b < 0) THEN (IF a < 0 THEN -a ELSE a) \div (IF b < 0 THEN -b ELSE b)
                  ELSE -((IF a < 0 THEN -a ELSE a) \div (IF b < 0 THEN -b ELSE b))
             r == a - q * b
         IN DivModOK(za, zb, Z(q < 0, N(IF q < 0 THEN -q ELSE q)), Z(r < 0, N(IF r < 0 THEN -r ELSE r)))
VARIABLE x
Init == x = 0
Next == UNCHANGED x
Spec == Init /\ [][Next]_x
=============================================================================
