SPECIFICATION Spec
CONSTANTS
  Key = {1, 2, 3}
  Val = {1, 2}
  B0 = 2
  HMax = 3
  MaxPairs = 2
  MaxBuckets = 8
CONSTRAINT Bounded
INVARIANTS NoDupKeys RightBucket SizeOK LoadOK IterEachOnce
PROPERTIES AbsStep
CHECK_DEADLOCK FALSE
