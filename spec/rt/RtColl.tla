------------------------------- MODULE RtColl -------------------------------
(* C17 — the runtime map and dynamic array as abstract data types.

   Abstract state:  m \in [SUBSET Key -> Val] (a partial function), a \in Seq(Val).
   Operations are those of runtime/core/map.h and array.h (+ libs/len.c, append.c):
     map:   New, FromPairs(pairs), Set(k,v), Get(k), Has(k), Size, Iterate
     array: ANew(cap), Append(v), AGet(i), ASet(i,v), ALen
   Replies are part of the action, so the same actions serve
     - as a generator: TLC enumerates / simulates operation sequences (`hist`), and
     - as a trace specification (RtCollTrace): the replies and the full projected state that the
       real C code logged after every call must be the ones the action prescribes.            *)
EXTENDS Integers, Sequences, FiniteSets, TLC, Json

CONSTANTS Key, Val, MaxLen, IdxSlack, MaxPairs,
          LitSizes        \* sizes of long map literals (keys 1 .. n) the generator may build in one step

VARIABLES m, a, hist
vars == <<m, a, hist>>

Absent == -1
Dom == DOMAIN m
Entries == {<<k, m[k]>> : k \in Dom}

Init == m = <<>> /\ a = <<>> /\ hist = <<>>      \* <<>> is the function with empty domain

Put(f, k, v) == [x \in (DOMAIN f) \cup {k} |-> IF x = k THEN v ELSE f[x]]

RECURSIVE PutAll(_, _)
PutAll(f, ps) == IF ps = <<>> THEN f ELSE PutAll(Put(f, Head(ps)[1], Head(ps)[2]), Tail(ps))

(* --- map operations: effect and reply --- *)
GetReply(k)  == IF k \in Dom THEN m[k] ELSE Absent
HasReply(k)  == k \in Dom
SizeReply    == Cardinality(Dom)

New          == m' = <<>> /\ UNCHANGED a
FromPairs(ps) == m' = PutAll(<<>>, ps) /\ UNCHANGED a
Set(k, v)    == m' = Put(m, k, v) /\ UNCHANGED a
Query        == UNCHANGED <<m, a>>

(* --- array operations --- *)
InRange(i)   == 0 <= i /\ i < Len(a)
AGetReply(i) == IF InRange(i) THEN a[i + 1] ELSE Absent          \* NULL when refused
ASetOk(i)    == InRange(i)
ANew         == a' = <<>> /\ UNCHANGED m
AAppend(v)   == a' = Append(a, v) /\ UNCHANGED m
ASet(i, v)   == a' = (IF InRange(i) THEN [a EXCEPT ![i + 1] = v] ELSE a) /\ UNCHANGED m

(* --- generator: records the operation (not the reply: the trace spec recomputes it) --- *)
Op(r) == hist' = Append(hist, r)
PairSeqs == UNION {[1 .. n -> Key \X Val] : n \in 0 .. MaxPairs}

MapNext == \/ New /\ Op([op |-> "new"])
           \/ \E ps \in PairSeqs : FromPairs(ps) /\ Op([op |-> "frompairs", pairs |-> ps])
           \/ \E n \in LitSizes : LET ps == [i \in 1 .. n |-> <<i, CHOOSE v \in Val : TRUE>>]      \* a long literal
                                  IN FromPairs(ps) /\ Op([op |-> "frompairs", pairs |-> ps])
           \/ \E k \in Key, v \in Val : Set(k, v) /\ Op([op |-> "set", k |-> k, v |-> v])
           \/ \E k \in Key : Query /\ Op([op |-> "get", k |-> k])
           \/ \E k \in Key : Query /\ Op([op |-> "has", k |-> k])
           \/ Query /\ Op([op |-> "size"])
           \/ Query /\ Op([op |-> "iter"])

ArrNext == \/ ANew /\ Op([op |-> "anew"])
           \/ \E v \in Val : Len(a) < MaxLen /\ AAppend(v) /\ Op([op |-> "append", v |-> v])
           \/ \E i \in (0 - IdxSlack) .. (Len(a) + IdxSlack) : Query /\ Op([op |-> "aget", i |-> i])
           \/ \E i \in (0 - IdxSlack) .. (Len(a) + IdxSlack), v \in Val :
                 ASet(i, v) /\ Op([op |-> "aset", i |-> i, v |-> v])
           \/ Query /\ Op([op |-> "alen"])

Next == (Key # {} /\ MapNext) \/ (MaxLen > 0 /\ ArrNext)
Spec == Init /\ [][Next]_vars

(* --- sanity of the abstract type itself (checked by TLC in the exhaustive configuration) --- *)
TypeOK      == /\ \A k \in Dom : k \in Key /\ m[k] \in Val
               /\ \A i \in 1 .. Len(a) : a[i] \in Val
SizeIsCount == SizeReply = Cardinality(Entries)
LastWriteWins == [][\A k \in Key, v \in Val : (m' = Put(m, k, v)) => m'[k] = v]_vars

View == <<m, a>>
(* transition coverage: one history per generated transition of the abstract state graph *)
EmitHistAC == PrintT("@@CASE " \o ToJson([h |-> hist']))
EmitAtDepth(d) == Len(hist) = d => PrintT("@@CASE " \o ToJson([h |-> hist]))
Emit200 == EmitAtDepth(200)
Emit60  == EmitAtDepth(60)
=============================================================================
