SPECIFICATION Spec
CONSTANTS
  Key = {1, 2, 3}
  Val = {1, 2}
  MaxLen = 0
  IdxSlack = 0
  MaxPairs = 2
  LitSizes = {}
INVARIANTS TypeOK SizeIsCount
PROPERTIES LastWriteWins
VIEW View
ACTION_CONSTRAINT EmitHistAC
CHECK_DEADLOCK FALSE
