------------------------------ MODULE RtMapImpl ------------------------------
(* The runtime map as runtime/core/map.c implements it: a chained hash table.
     - nb buckets (B0 initially), each a chain of entries [k, v]; a new entry is linked at the head;
     - Set first doubles the table when sz >= floor(3 nb / 4) (also when the key turns out to exist),
       then looks the key up in bucket h[k] % nb: update in place or insert at the head;
     - Resize walks the old buckets 0 .. nb-1, each chain from its head, and links every entry at the
       head of its new bucket h % nb';
     - FromPairs pre-sizes the table to the next power-of-two multiple of B0 above count*4/3 + 1 and
       then Sets every pair in order;
     - iteration visits buckets 0 .. nb-1, each chain from its head.
   The hash function h is arbitrary: it is chosen in Init, so TLC explores every collision pattern.
   What is checked: the table refines the abstract map of RtColl (AbsStep: every step changes the
   abstraction exactly as the abstract operation prescribes; the replies are those of the abstraction),
   and the structural invariants that lookups rely on. *)
EXTENDS Integers, Sequences, FiniteSets, TLC

CONSTANTS Key, Val, B0, HMax, MaxPairs, MaxBuckets

VARIABLES nb, bk, sz, h, last
vars == <<nb, bk, sz, h, last>>

Thresh(n) == (3 * n) \div 4
Empty(n) == [i \in 0 .. n - 1 |-> <<>>]

RECURSIVE PosIn(_, _, _)
PosIn(ch, k, i) == IF i > Len(ch) THEN 0 ELSE IF ch[i].k = k THEN i ELSE PosIn(ch, k, i + 1)

(* iteration order = the order Resize walks the table *)
RECURSIVE Flat(_, _, _)
Flat(b, n, i) == IF i >= n THEN <<>> ELSE b[i] \o Flat(b, n, i + 1)
IterSeq == Flat(bk, nb, 0)

RECURSIVE Relink(_, _, _)
Relink(es, nw, n2) == IF es = <<>> THEN nw
                      ELSE LET e == Head(es)  j == h[e.k] % n2
                           IN Relink(Tail(es), [nw EXCEPT ![j] = <<e>> \o @], n2)
Resized(st, n2) == [nb |-> n2, bk |-> Relink(Flat(st.bk, st.nb, 0), Empty(n2), n2), sz |-> st.sz]

SetSt(st, k, v) ==
    LET s1 == IF st.sz >= Thresh(st.nb) THEN Resized(st, 2 * st.nb) ELSE st
        j == h[k] % s1.nb
        p == PosIn(s1.bk[j], k, 1)
    IN IF p > 0 THEN [s1 EXCEPT !.bk[j][p].v = v]
       ELSE [s1 EXCEPT !.bk[j] = <<[k |-> k, v |-> v]>> \o @, !.sz = @ + 1]

RECURSIVE SetAll(_, _)
SetAll(st, ps) == IF ps = <<>> THEN st ELSE SetAll(SetSt(st, Head(ps)[1], Head(ps)[2]), Tail(ps))

RECURSIVE Pow2From(_, _)
Pow2From(n, need) == IF n >= need THEN n ELSE Pow2From(2 * n, need)
FromPairsSt(ps) ==
    LET need == (Len(ps) * 4) \div 3 + 1
        st0 == [nb |-> B0, bk |-> Empty(B0), sz |-> 0]
        st1 == IF need > B0 THEN Resized(st0, Pow2From(B0, need)) ELSE st0
    IN SetAll(st1, ps)

Cur == [nb |-> nb, bk |-> bk, sz |-> sz]
Become(st) == nb' = st.nb /\ bk' = st.bk /\ sz' = st.sz

(* the abstraction: key |-> value of the first entry a lookup finds *)
Keys(st) == {Flat(st.bk, st.nb, 0)[i].k : i \in 1 .. Len(Flat(st.bk, st.nb, 0))}
Lookup(st, k) == LET ch == st.bk[h[k] % st.nb]  p == PosIn(ch, k, 1) IN IF p = 0 THEN -1 ELSE ch[p].v
Abs(st) == [k \in {x \in Key : Lookup(st, x) # -1} |-> Lookup(st, k)]

Put(f, k, v) == [x \in (DOMAIN f) \cup {k} |-> IF x = k THEN v ELSE f[x]]
RECURSIVE PutAll(_, _)
PutAll(f, ps) == IF ps = <<>> THEN f ELSE PutAll(Put(f, Head(ps)[1], Head(ps)[2]), Tail(ps))

Init == /\ nb = B0 /\ bk = Empty(B0) /\ sz = 0
        /\ h \in [Key -> 0 .. HMax]
        /\ last = [op |-> "new"]

PairSeqs == UNION {[1 .. n -> Key \X Val] : n \in 0 .. MaxPairs}
New == Become([nb |-> B0, bk |-> Empty(B0), sz |-> 0]) /\ last' = [op |-> "new"] /\ UNCHANGED h
SetOp(k, v) == Become(SetSt(Cur, k, v)) /\ last' = [op |-> "set", k |-> k, v |-> v] /\ UNCHANGED h
FromPairs(ps) == Become(FromPairsSt(ps)) /\ last' = [op |-> "frompairs", pairs |-> ps] /\ UNCHANGED h
Next == \/ New
        \/ \E k \in Key, v \in Val : SetOp(k, v)
        \/ \E ps \in PairSeqs : FromPairs(ps)
Spec == Init /\ [][Next]_vars
Bounded == nb <= MaxBuckets          \* state constraint for the exhaustive configuration

(* ---- refinement of the abstract map (RtColl: New, Set = Put, FromPairs = PutAll) ---- *)
AbsStep == [][ CASE last'.op = "new" -> Abs(Cur)' = <<>>
                 [] last'.op = "set" -> Abs(Cur)' = Put(Abs(Cur), last'.k, last'.v)
                 [] last'.op = "frompairs" -> Abs(Cur)' = PutAll(<<>>, last'.pairs) ]_vars

(* ---- what lookups and iteration rely on ---- *)
All == IterSeq
NoDupKeys == \A i, j \in 1 .. Len(All) : All[i].k = All[j].k => i = j
RightBucket == \A b \in 0 .. nb - 1 : \A i \in 1 .. Len(bk[b]) : h[bk[b][i].k] % nb = b
SizeOK == sz = Len(All) /\ sz = Cardinality(DOMAIN Abs(Cur))
LoadOK == sz <= Thresh(nb) \/ sz <= 1         \* never above 3/4 full (a table of B0 <= 1 aside)
IterEachOnce == /\ {All[i].k : i \in 1 .. Len(All)} = DOMAIN Abs(Cur)
                /\ \A i \in 1 .. Len(All) : All[i].v = Abs(Cur)[All[i].k]
=============================================================================
