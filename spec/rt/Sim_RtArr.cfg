SPECIFICATION Spec
CONSTANTS
  Key = {}
  Val = {1, 2, 3}
  MaxLen = 40
  IdxSlack = 2
  MaxPairs = 0
  LitSizes = {}
INVARIANTS TypeOK Emit60
CHECK_DEADLOCK FALSE
