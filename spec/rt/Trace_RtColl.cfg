SPECIFICATION TraceSpec
CONSTANTS
  Key = {1,2,3,4,5,6,7,8,9,10,11,12,13,14,15,16,17,18,19,20,21,22,23,24,25,26,27,28,29,30,31,32,33,34,35,36,37,38,39,40,41,42,43,44,45,46,47,48,49,50,51,52,53,54,55,56}
  Val = {1, 2, 3}
  MaxLen = 40
  IdxSlack = 2
  MaxPairs = 2
  LitSizes = {}
INVARIANTS TypeOK SizeIsCount
POSTCONDITION TraceAccepted
CHECK_DEADLOCK FALSE
