SPECIFICATION Spec
CONSTANTS
  Key = {}
  Val = {1, 2}
  MaxLen = 3
  IdxSlack = 2
  MaxPairs = 0
  LitSizes = {}
INVARIANTS TypeOK
VIEW View
ACTION_CONSTRAINT EmitHistAC
CHECK_DEADLOCK FALSE
