----------------------------- MODULE RtCollTrace -----------------------------
(* Validates what the real runtime (map.c, array.c, len.c, append.c, optional.c built with
   ASan+UBSan) answered, call by call, against RtColl. Every record carries the reply and the full
   projected state after the call (size, per-key lookups over the key universe, the iteration
   result / the array contents), all of which must equal the abstract state the action yields. *)
EXTENDS RtColl

Trace == ndJsonDeserialize("trace.ndjson")
VARIABLE l
tvars == <<vars, l>>
Ev == Trace[l]
IsEvent(e) == l <= Len(Trace) /\ Ev.op = e /\ l' = l + 1

TInit == m = <<>> /\ a = <<>> /\ hist = <<>> /\ l = 1

SeqToSet(s) == {s[i] : i \in 1 .. Len(s)}
(* the logged projection of the map: size, lookups (pairs <<k, v>> for present keys), iteration *)
TableOK(f) ==
    /\ Ev.nb >= 1
    /\ \A i \in 1 .. Len(Ev.lay) : Ev.lay[i][3] % Ev.nb = Ev.lay[i][2]                     \* RightBucket
    /\ \A i, j \in 1 .. Len(Ev.lay) : Ev.lay[i][1] = Ev.lay[j][1] => i = j                  \* NoDupKeys
    /\ {Ev.lay[i][1] : i \in 1 .. Len(Ev.lay)} = DOMAIN f /\ Len(Ev.lay) = Cardinality(DOMAIN f)
MapStateOK(f) ==
    /\ Ev.size = Cardinality(DOMAIN f)
    /\ SeqToSet(Ev.gets) = {<<k, f[k]>> : k \in DOMAIN f} /\ Len(Ev.gets) = Cardinality(DOMAIN f)
    /\ SeqToSet(Ev.iter) = {<<k, f[k]>> : k \in DOMAIN f}
    /\ Len(Ev.iter) = Cardinality(DOMAIN f)                      \* each entry exactly once
    /\ TableOK(f)
(* the hash table as logged (RtMapImpl's structural invariants on the real table): every entry sits in the
   bucket its cached hash selects, no key twice, as many entries as the abstract map has keys *)

ArrStateOK(s) == Ev.arr = s /\ Ev.len = Len(s)

TReset == IsEvent("reset") /\ m' = <<>> /\ a' = <<>> /\ UNCHANGED hist
TNew   == IsEvent("new") /\ New /\ MapStateOK(m') /\ UNCHANGED hist
TFromPairs == IsEvent("frompairs") /\ FromPairs(Ev.pairs) /\ MapStateOK(m') /\ UNCHANGED hist
TSet   == IsEvent("set") /\ Set(Ev.k, Ev.v) /\ Ev.r = TRUE /\ MapStateOK(m') /\ UNCHANGED hist
TGet   == IsEvent("get") /\ Query /\ Ev.r = GetReply(Ev.k) /\ Ev.ropt = GetReply(Ev.k)
          /\ MapStateOK(m) /\ UNCHANGED hist
THas   == IsEvent("has") /\ Query /\ Ev.r = HasReply(Ev.k) /\ MapStateOK(m) /\ UNCHANGED hist
TSize  == IsEvent("size") /\ Query /\ Ev.r = SizeReply /\ Ev.rlen = SizeReply /\ MapStateOK(m)
          /\ UNCHANGED hist
TIter  == IsEvent("iter") /\ Query /\ MapStateOK(m) /\ UNCHANGED hist

TANew  == IsEvent("anew") /\ ANew /\ ArrStateOK(a') /\ UNCHANGED hist
TAppend == IsEvent("append") /\ AAppend(Ev.v) /\ Ev.r = TRUE /\ ArrStateOK(a') /\ UNCHANGED hist
TAGet  == IsEvent("aget") /\ Query /\ Ev.r = AGetReply(Ev.i) /\ ArrStateOK(a) /\ UNCHANGED hist
TASet  == IsEvent("aset") /\ ASet(Ev.i, Ev.v) /\ Ev.r = ASetOk(Ev.i) /\ ArrStateOK(a') /\ UNCHANGED hist
TALen  == IsEvent("alen") /\ Query /\ Ev.r = Len(a) /\ Ev.rlib = Len(a) /\ ArrStateOK(a) /\ UNCHANGED hist

TraceNext == TReset \/ TNew \/ TFromPairs \/ TSet \/ TGet \/ THas \/ TSize \/ TIter
             \/ TANew \/ TAppend \/ TAGet \/ TASet \/ TALen
TraceSpec == TInit /\ [][TraceNext]_tvars
TraceAccepted == TLCGet("stats").diameter - 1 = Len(Trace)
=============================================================================
