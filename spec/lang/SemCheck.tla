------------------------------ MODULE SemCheck ------------------------------
(* Trace validation against FerretSem: cases.ndjson holds one record per executed program:
   [id, prog (AST), out (the lines the executable printed), halt ("exit0" | "panic"), out2, halt2].
   For each record TLC evaluates Run(prog) and decides whether the recorded behaviour is the one the
   semantics prescribe; the verdict and the prescribed behaviour are emitted for the report. *)
EXTENDS FerretSem
Cases == ndJsonDeserialize("cases.ndjson")
VARIABLE ci
Init == ci = 1
(* out2 / halt2: the record of a second execution of the same program (the other back end, C02; equal to
   out / halt when there is only one).  ok2: the second record is the prescribed behaviour; agree: the two
   records are the same lines and the same kind of termination. *)
Verdict(c) == LET r == Run(c.prog) IN
              [id |-> c.id, ok |-> (r.out = c.out /\ r.halt = c.halt), out |-> r.out, halt |-> r.halt,
               ok2 |-> (r.out = c.out2 /\ r.halt = c.halt2), agree |-> (c.out = c.out2 /\ c.halt = c.halt2)]
Next == /\ ci <= Len(Cases) /\ ci' = ci + 1
        /\ PrintT("@@OUT " \o ToJson(Verdict(Cases[ci])))
Spec == Init /\ [][Next]_ci
Done == TLCGet("stats").diameter - 1 = Len(Cases)
=============================================================================
