------------------------------ MODULE SemCheck ------------------------------
(* Trace validation against FerretSem: cases.ndjson holds one record per executed program:
   [id, prog (AST), out (the lines the executable printed), halt ("exit0" | "panic")].
   For each record TLC evaluates Run(prog) and decides whether the recorded behaviour is the one the
   semantics prescribe; the verdict and the prescribed behaviour are emitted for the report. *)
EXTENDS FerretSem
Cases == ndJsonDeserialize("cases.ndjson")
VARIABLE ci
Init == ci = 1
Verdict(c) == LET r == Run(c.prog) IN
              [id |-> c.id, ok |-> (r.out = c.out /\ r.halt = c.halt), out |-> r.out, halt |-> r.halt]
Next == /\ ci <= Len(Cases) /\ ci' = ci + 1
        /\ PrintT("@@OUT " \o ToJson(Verdict(Cases[ci])))
Spec == Init /\ [][Next]_ci
Done == TLCGet("stats").diameter - 1 = Len(Cases)
=============================================================================
