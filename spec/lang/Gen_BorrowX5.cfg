SPECIFICATION Spec
CONSTANTS
  MaxLen = 5
  UseBlocks = TRUE
  UseLoops = TRUE
  UseCalls = TRUE
INVARIANTS TaintOnlyFromConflict NoUseNoIllegal
VIEW View
ACTION_CONSTRAINT EmitAC
CHECK_DEADLOCK FALSE
