--------------------------- MODULE IndexScenario ---------------------------
(* C04 (fixed-size arrays) and C08 (dynamic arrays, strings): what an indexing program must do.

   A scenario is a sequence of events executed by a function `run(c)`; c \in {0,1} is an opaque
   parameter (it reaches the function through a call the compiler cannot see through).
   Container `kind`:  "fixed" [N]i32 (N = 3, initial elements 10,20,30),  "dyn" []i32 built from a
   literal of L elements and grown by append,  "str" a string of L bytes ('a' + position).
     let(k)      let i: i32 = k;                 set(k)      i = k;
     ifset(k)    if c == 1 { i = k; }            inc         i = i + 1;
     rdl(k)      print x[k]  (literal index)     rdc(k)      const K: i32 = k; print x[K]
     rdi         print x[i]                      rdo(k)      print x[id(k)]  (opaque index)
     rdw(ty,v)   print x[wide(v)]  opaque index of type u32 / u64 / i64 with a value in [2^31, 2^32 + 1]: it is
                 beyond every length whatever the width the implementation narrows it to
     rdni        print x[-i]                     defk(k) / rdk / rdnk   const K = k; print x[K]; print x[-K]
     wri(v)      x[i] = v                        wrl(k,v)    x[k] = v
     app(v)      append(&'x, v)   (dyn only)     len         print len(x)
     rdp(w)      print x[push(&'x, w)]   the index expression appends w and yields the new last index; rdpn: yields -1
                 (the bounds check and the normalisation of a negative index use the length the array has when the
                 element is read, after the index expression has been evaluated)
     xset(n)     x = <new literal of n elements / characters>  (dyn, str)      ifxset(n)   if c == 1 { x = ... }
     loop        while j < 2 { print x[i]; i = i + 1; j = j + 1; }
   Run(kind, L, es, c) yields the prescribed observation: the printed lines up to the first access
   whose index (after adding the current length to a negative index) is outside [0, length), and
   whether such an access happens ("oob").
   C04: oob  => the program is rejected, or it panics after exactly the lines printed so far;
        ~oob and accepted => it prints exactly the lines.   (a rejection is always allowed: the
        documented rule requires compile-time constant indices for fixed arrays)
   C08: oob  => rejected, or panic (non-zero status, "index out of bounds") after exactly the lines so far;
        ~oob => ACCEPTED (every index valid for the current length must compile) and prints the lines. *)
EXTENDS Integers, Sequences, FiniteSets, TLC, Json

CONSTANTS Kind, MaxLen, InitLen

Elem0(kind, n) == [j \in 1 .. n |-> IF kind = "str" THEN 96 + j ELSE 10 * j]
S0(kind, n) == [x |-> Elem0(kind, n), i |-> 0, hasI |-> FALSE, kc |-> 0, hasK |-> FALSE, out |-> <<>>,
                oob |-> FALSE, n |-> 0]

(* the container assigned as a whole from a new literal of n elements (dyn: 110, 120, ...; str: 'k', 'l', ...) *)
Fresh(n) == [j \in 1 .. n |-> IF Kind = "str" THEN 106 + j ELSE 100 + 10 * j]

Norm(k, len) == IF k < 0 THEN k + len ELSE k
InB(k, len) == Norm(k, len) >= 0 /\ Norm(k, len) < len

Read(s, k) == IF s.oob THEN s
              ELSE IF InB(k, Len(s.x)) THEN [s EXCEPT !.out = Append(@, s.x[Norm(k, Len(s.x)) + 1])]
              ELSE [s EXCEPT !.oob = TRUE]
Write(s, k, v) == IF s.oob THEN s
                  ELSE IF InB(k, Len(s.x)) THEN [s EXCEPT !.x[Norm(k, Len(s.x)) + 1] = v]
                  ELSE [s EXCEPT !.oob = TRUE]
Step(s, e, c) ==
    IF s.oob THEN s ELSE
    CASE e.k = "let"  -> [s EXCEPT !.i = e.v, !.hasI = TRUE]
      [] e.k = "set"  -> [s EXCEPT !.i = e.v]
      [] e.k = "ifset" -> IF c = 1 THEN [s EXCEPT !.i = e.v] ELSE s
      [] e.k = "inc"  -> [s EXCEPT !.i = @ + 1]
      [] e.k \in {"rdl", "rdc", "rdo"} -> Read(s, e.v)
      [] e.k = "rdw"  -> [s EXCEPT !.oob = TRUE]     \* wide opaque index 2^31 .. 2^32+len: beyond every length
      [] e.k = "rdi"  -> Read(s, s.i)
      [] e.k = "rdni" -> Read(s, 0 - s.i)                    \* x[-i]: negation of a named value
      [] e.k = "defk" -> [s EXCEPT !.kc = e.v, !.hasK = TRUE]   \* const K: i32 = v;
      [] e.k = "rdk"  -> Read(s, s.kc)                       \* x[K]
      [] e.k = "rdnk" -> Read(s, 0 - s.kc)                   \* x[-K]
      [] e.k = "wri"  -> Write(s, s.i, e.w)
      [] e.k = "wrl"  -> Write(s, e.v, e.w)
      [] e.k = "app"  -> [s EXCEPT !.x = Append(@, e.w)]
      [] e.k = "rdp"  -> Read([s EXCEPT !.x = Append(@, e.w)], Len(s.x))          \* x[push(&'x, w)]: push appends, returns the new last index
      [] e.k = "rdpn" -> Read([s EXCEPT !.x = Append(@, e.w)], 0 - 1)             \* x[pushm(&'x, w)]: pushm appends, returns -1
      [] e.k = "xset" -> [s EXCEPT !.x = Fresh(e.n)]                    \* x = <literal of n elements>
      [] e.k = "ifxset" -> IF c = 1 THEN [s EXCEPT !.x = Fresh(e.n)] ELSE s
      [] e.k = "len"  -> [s EXCEPT !.out = Append(@, Len(s.x))]
      [] e.k = "loop" -> LET s1 == Read(s, s.i)
                             s2 == IF s1.oob THEN s1 ELSE [s1 EXCEPT !.i = @ + 1]
                             s3 == IF s2.oob THEN s2 ELSE Read(s2, s2.i)
                         IN IF s3.oob THEN s3 ELSE [s3 EXCEPT !.i = @ + 1]
RECURSIVE RunFrom(_, _, _, _)
RunFrom(s, es, j, c) == IF j > Len(es) THEN s ELSE RunFrom(Step(s, es[j], c), es, j + 1, c)
Run(kind, n, es, c) == RunFrom(S0(kind, n), es, 1, c)

(* ---- enumerator ---- *)
Idx(len) == (0 - len - 1) .. len          \* every in-range index and one beyond at either end
Events(kind, es) ==
    LET s0 == RunFrom(S0(kind, InitLen), es, 1, 0)
        s1 == RunFrom(S0(kind, InitLen), es, 1, 1)
        len == Len(s1.x)
        w == 100 + Len(es)
        has == s0.hasI
    IN (IF ~has THEN {[k |-> "let", v |-> v] : v \in Idx(len)} ELSE {})
       \cup (IF has THEN {[k |-> "set", v |-> v] : v \in {0 - len - 1, -1, 0, len - 1, len}} ELSE {})
       \cup (IF has THEN {[k |-> "ifset", v |-> v] : v \in {0 - len - 1, -1, 0, len - 1, len}} ELSE {})
       \cup (IF has THEN {[k |-> "inc"], [k |-> "rdi"], [k |-> "rdni"], [k |-> "loop"]} ELSE {})
       \cup (IF ~s0.hasK THEN {[k |-> "defk", v |-> v] : v \in {0 - len, -1, 1, len - 1, len}} ELSE {})
       \cup (IF s0.hasK THEN {[k |-> "rdk"], [k |-> "rdnk"]} ELSE {})
       \cup (IF has /\ kind # "str" THEN {[k |-> "wri", w |-> w]} ELSE {})
       \cup {[k |-> r, v |-> v] : r \in {"rdl", "rdc", "rdo"}, v \in Idx(len)}
       \cup {[k |-> "rdw", ty |-> ty, big |-> b] : ty \in {"u32", "u64", "i64"},
                 b \in {"2147483648", "3000000000", "4294967286"}}
       \cup {[k |-> "rdw", ty |-> ty, big |-> b] : ty \in {"u64", "i64"}, b \in {"4294967297", "4294967296"}}
       \cup (IF kind # "str" THEN {[k |-> "wrl", v |-> v, w |-> w] : v \in {0 - len, -1, 0, len - 1, len}} ELSE {})
       \cup (IF kind = "dyn" /\ len < InitLen + 2 THEN {[k |-> "app", w |-> w]} ELSE {})
       \cup (IF kind = "dyn" /\ len < InitLen + 2 THEN {[k |-> "rdp", w |-> w], [k |-> "rdpn", w |-> w]} ELSE {})
       \cup (IF kind # "fixed" THEN {[k |-> "len"]} ELSE {})
       \cup (IF kind # "fixed" /\ Cardinality({j \in 1 .. Len(es) : es[j].k \in {"xset", "ifxset"}}) = 0
             THEN {[k |-> r, n |-> n] : r \in {"xset", "ifxset"}, n \in {InitLen - 2, InitLen + 2}} ELSE {})

IsAccess(e) == e.k \in {"rdw", "rdl", "rdc", "rdo", "rdi", "rdni", "rdk", "rdnk", "wri", "wrl", "loop", "len", "rdp", "rdpn"}
VARIABLE hist
Init == hist = <<>>
Next == /\ Len(hist) < MaxLen
        /\ ~(Run(Kind, InitLen, hist, 0).oob /\ Run(Kind, InitLen, hist, 1).oob)   \* nothing observable after a certain oob
        /\ \E e \in Events(Kind, hist) : hist' = Append(hist, e)
Spec == Init /\ [][Next]_hist

Abs(es) == <<[c \in {0, 1} |-> LET s == Run(Kind, InitLen, es, c) IN <<s.i, s.hasI, s.kc, s.hasK, Len(s.x), s.oob>>],
             {j \in 1 .. Len(es) : es[j].k \in {"let", "set", "ifset", "inc", "app", "xset", "ifxset", "rdp", "rdpn"}} # {},
             {j \in 1 .. Len(es) : IsAccess(es[j])} # {},
             IF es = <<>> THEN "none" ELSE es[Len(es)].k>>
View == Abs(hist)
Obs(es, c) == LET s == Run(Kind, InitLen, es, c) IN [c |-> c, out |-> s.out, oob |-> s.oob]
CaseOf(es) == [kind |-> Kind, len0 |-> InitLen, events |-> es, runs |-> <<Obs(es, 0), Obs(es, 1)>>]
(* one scenario per transition once the history has an access: also the transitions that change the index or the
   container AFTER the last access (a later assignment must not reach back to an earlier access) *)
EmitAC == IF \E j \in 1 .. Len(hist') : IsAccess(hist'[j]) THEN PrintT("@@CASE " \o ToJson(CaseOf(hist'))) ELSE TRUE
OobIsSticky == \A c \in {0, 1} : Run(Kind, InitLen, hist, c).oob => Len(hist) > 0
=============================================================================
