SPECIFICATION Spec
INVARIANTS AllRejected Emit
CHECK_DEADLOCK FALSE
