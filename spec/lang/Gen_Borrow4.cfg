SPECIFICATION Spec
CONSTANTS
  MaxLen = 4
  UseBlocks = FALSE
  UseLoops = FALSE
  UseCalls = FALSE
INVARIANTS TaintOnlyFromConflict NoUseNoIllegal
VIEW View
ACTION_CONSTRAINT EmitAC
CHECK_DEADLOCK FALSE
