------------------------------ MODULE RefEscape ------------------------------
(* C07, last clause — a function cannot return a reference to one of its locals.
   The referent of the returned reference is described by its origin:
     base:   a local variable, a by-value parameter (also a local of the callee), or the referent of a
             reference parameter (owned by the caller);
     path:   the whole value, a struct field, or an array element of it;
     via:    returned directly (`return &x.f`) or through a local reference variable bound to it.
   MustReject == the base is owned by the callee.  Everything else must be accepted. *)
EXTENDS Integers, Sequences, TLC, Json
Bases == {"local", "valparam", "refparam"}
Paths == {"whole", "field", "elem"}
Vias  == {"direct", "localref"}
OwnedByCallee(b) == b \in {"local", "valparam"}
MustReject(b, p, v) == OwnedByCallee(b)
VARIABLES b, p, v
Init == b \in Bases /\ p \in Paths /\ v \in Vias
Next == UNCHANGED <<b, p, v>>
Spec == Init /\ [][Next]_<<b, p, v>>
Emit == PrintT("@@CASE " \o ToJson([base |-> b, path |-> p, via |-> v, mustReject |-> MustReject(b, p, v),
                                    key |-> "C07|return-ref|" \o b \o "|" \o p \o "|" \o v]))
=============================================================================
