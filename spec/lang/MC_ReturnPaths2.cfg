SPECIFICATION Spec
CONSTANT Depth = 2
INVARIANTS RuleMatchesPaths Emit
CHECK_DEADLOCK FALSE
