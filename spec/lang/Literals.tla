------------------------------ MODULE Literals ------------------------------
(* C10 — integer literals are range-checked exactly and keep their value.

   A literal is a character sequence: optional '-', optional prefix 0x / 0o / 0b, digits of the base
   with '_' separators between digits.  LitValue gives its mathematical value (BigNum); the rule is
       MustAccept(lit, T) == InRange(LitValue(lit), T)        MustReject otherwise
   and an accepted literal must be observed by the running program as exactly LitValue(lit).
   The enumerator builds literals from values (type boundaries min-2 .. min+1, -1, 0, 1, max-1 ..
   max+2 and power-of-two boundaries 2^k-1, 2^k, 2^k+1 with either sign), four bases and three
   separator patterns; LitValue(Text(v, base, sep)) = v is checked by TLC on every case, so the
   rendering of the literal is itself verified against the reading of it. *)
EXTENDS BigNum, FiniteSets, TLC, Json

Types == { [n |-> "i8", b |-> 8, s |-> TRUE], [n |-> "i16", b |-> 16, s |-> TRUE], [n |-> "i32", b |-> 32, s |-> TRUE],
           [n |-> "i64", b |-> 64, s |-> TRUE], [n |-> "i128", b |-> 128, s |-> TRUE], [n |-> "i256", b |-> 256, s |-> TRUE],
           [n |-> "u8", b |-> 8, s |-> FALSE], [n |-> "u16", b |-> 16, s |-> FALSE], [n |-> "u32", b |-> 32, s |-> FALSE],
           [n |-> "u64", b |-> 64, s |-> FALSE], [n |-> "u128", b |-> 128, s |-> FALSE], [n |-> "u256", b |-> 256, s |-> FALSE] }
Bases == {10, 16, 8, 2}
Seps == {"none", "group", "single"}
CONSTANT Positions

MinOf(t) == IF t.s THEN Z(TRUE, NPow2(t.b - 1)) ELSE Z(FALSE, <<>>)
MaxOf(t) == IF t.s THEN Z(FALSE, NSub(NPow2(t.b - 1), <<1>>)) ELSE Z(FALSE, NSub(NPow2(t.b), <<1>>))
ZI(n) == Z(n < 0, NFromInt(IF n < 0 THEN -n ELSE n))
Ks == {7, 8, 15, 16, 31, 32, 63, 64, 127, 128, 255, 256}
Boundary(t) == {ZAdd(MinOf(t), ZI(d)) : d \in -2 .. 1} \cup {ZAdd(MaxOf(t), ZI(d)) : d \in -1 .. 2}
               \cup {ZI(-1), ZI(0), ZI(1)}
Powers(t) == UNION {{ZAdd(Z(sg, NPow2(k)), ZI(d)) : d \in -1 .. 1, sg \in BOOLEAN} : k \in {x \in Ks : x <= t.b}}
(* "round" constants n * 2^k as they appear in masks (0xA000..., 0xF000...): low limbs all zero under a
   non-zero limb, which is what a limb-wise reader of the decimal expansion can get wrong *)
RoundKs(t) == {k \in {64, t.b \div 2, (t.b \div 2) + 4, t.b - 8, t.b - 4} : k < t.b}
Round(t) == IF t.b < 64 THEN {}
            ELSE {Z(sg, NShl(NFromInt(n), k)) : n \in {5, 10, 15}, k \in RoundKs(t), sg \in BOOLEAN}
Values(t) == {v \in Boundary(t) \cup Powers(t) \cup Round(t) : v.mag # <<>> \/ ~v.neg}

(* ---- text of a value ---- *)
DigitChar(d) == <<"0","1","2","3","4","5","6","7","8","9","a","b","c","d","e","f">>[d + 1]
Prefix(base) == CASE base = 10 -> <<>> [] base = 16 -> <<"0", "x">> [] base = 8 -> <<"0", "o">> [] base = 2 -> <<"0", "b">>
GroupLen(base) == IF base = 10 THEN 3 ELSE 4
RECURSIVE WithSep(_, _, _)
(* digits ds (chars, msd first): insert '_' so that groups of g digits are counted from the right *)
WithSep(ds, g, i) == IF i > Len(ds) THEN <<>>
                     ELSE (IF i > 1 /\ (Len(ds) - i + 1) % g = 0 THEN <<"_">> ELSE <<>>) \o <<ds[i]>> \o WithSep(ds, g, i + 1)
Digits(v, base) == LET nd == NToBase(v.mag, base) IN [i \in 1 .. Len(nd) |-> DigitChar(nd[i])]
Body(v, base, sep) == LET ds == Digits(v, base) IN
                      CASE sep = "none" -> ds
                        [] sep = "group" -> WithSep(ds, GroupLen(base), 1)
                        [] sep = "single" -> IF Len(ds) < 2 THEN ds ELSE <<ds[1], "_">> \o SubSeq(ds, 2, Len(ds))
(* sgn = "spaced": the minus sign is written apart from the digits ("- 5"), i.e. as a unary minus applied to
   the literal; the value denoted is the same *)
Text(v, base, sep, sgn) == (IF v.neg THEN (IF sgn = "spaced" THEN <<"-", " ">> ELSE <<"-">>) ELSE <<>>)
                           \o Prefix(base) \o Body(v, base, sep)

(* ---- reading a literal ---- *)
CharVal(c) == CHOOSE d \in 0 .. 15 : DigitChar(d) = c
RECURSIVE StripSep(_)
StripSep(cs) == IF cs = <<>> THEN <<>> ELSE (IF Head(cs) = "_" THEN <<>> ELSE <<Head(cs)>>) \o StripSep(Tail(cs))
LitValue(cs) ==
    LET neg == cs # <<>> /\ Head(cs) = "-"
        u0 == IF neg THEN Tail(cs) ELSE cs
        u == IF u0 # <<>> /\ Head(u0) = " " THEN Tail(u0) ELSE u0
        base == IF Len(u) >= 2 /\ u[1] = "0" /\ u[2] \in {"x", "o", "b"}
                THEN (CASE u[2] = "x" -> 16 [] u[2] = "o" -> 8 [] u[2] = "b" -> 2) ELSE 10
        body == StripSep(IF base = 10 THEN u ELSE SubSeq(u, 3, Len(u)))
    IN Z(neg, NFromBase([i \in 1 .. Len(body) |-> CharVal(body[i])], base))

VARIABLES t, v, base, sep, pos, sgn
vars == <<t, v, base, sep, pos, sgn>>
Init == /\ t \in Types /\ base \in Bases /\ sep \in Seps /\ pos \in Positions
        /\ v \in Values(t)
        /\ sgn \in {"tight", "spaced"}
        /\ sgn = "spaced" => v.neg /\ sep = "none"
Next == UNCHANGED vars
Spec == Init /\ [][Next]_vars

ReadBack == LitValue(Text(v, base, sep, sgn)) = v
Case == [ty |-> t.n, text |-> Text(v, base, sep, sgn), base |-> base, sep |-> sep, pos |-> pos, sgn |-> sgn,
         inRange |-> InRange(v, t.b, t.s), neg |-> v.neg, dec |-> NToDec(v.mag)]
Emit == PrintT("@@CASE " \o ToJson(Case))
=============================================================================
