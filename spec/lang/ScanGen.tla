------------------------------- MODULE ScanGen -------------------------------
(* Enumerates all character-class sequences up to a length, for the unit-level replay into
   source.Position.Advance (C19). *)
EXTENDS Integers, Sequences, TLC, Json
CONSTANT MaxLen
VARIABLE cs
Init == cs \in UNION {[1 .. n -> {"s", "t", "n"}] : n \in 0 .. MaxLen}
Next == UNCHANGED cs
Spec == Init /\ [][Next]_cs
Emit == PrintT("@@CASE " \o ToJson([cs |-> cs]))
=============================================================================
