SPECIFICATION Spec
CONSTANT Positions = {"init"}
INVARIANTS ReadBack Emit
CHECK_DEADLOCK FALSE
