------------------------------ MODULE ExprGen ------------------------------
(* Small-scope enumeration of integer expression shapes for FerretSem (C01, C02, C09):
   every integer type x every operator x every pair of boundary operands.  The generator decides what
   is *asked*; what the answer must be is FerretSem's EvalE, evaluated by TLC when the recorded output
   is validated.  Excluded: division / remainder by zero (the properties give it no defined result). *)
EXTENDS BigNum, TLC, Json

Types == { [s |-> sg, b |-> w] : sg \in BOOLEAN, w \in {8, 16, 32, 64, 128, 256} }
TyName(ty) == (IF ty.s THEN "i" ELSE "u") \o ToString(ty.b)
ArithOps == {"+", "-", "*", "/", "%"}
CmpOps == {"<", "<=", ">", ">=", "==", "!="}

Max(ty) == IF ty.s THEN NSub(NPow2(ty.b - 1), <<1>>) ELSE NSub(NPow2(ty.b), <<1>>)
Boundary(ty) ==
    LET mx == Max(ty)
        pos == { <<>>, <<1>>, <<2>>, <<3>>, <<7>>, mx, NSub(mx, <<1>>), NDivS(mx, 2).q, NAdd(NDivS(mx, 2).q, <<1>>),
                 NDivS(mx, 3).q, NPow2(ty.b \div 2), NSub(NPow2(ty.b \div 2), <<1>>) }
    IN { Z(FALSE, m) : m \in pos }
       \cup (IF ty.s THEN { Z(TRUE, m) : m \in {<<1>>, <<2>>, <<7>>, mx, NAdd(mx, <<1>>), NDivS(mx, 2).q, NPow2(ty.b \div 2)} } ELSE {})

BoundaryOf == [t \in Types |-> Boundary(t)]          \* constant-level: evaluated once, not once per enumerated case

IsMin(ty, x) == ty.s /\ x.neg /\ x.mag = NAdd(Max(ty), <<1>>)
Defined(ty, op, a, b) == (op \in {"/", "%"}) => b.mag # <<>>
(* MIN / -1 and MIN % -1: the quotient 2^(b-1) wraps to MIN, the remainder is 0.  Emitted with a tag so that the
   harness runs each of them in a program of its own (hardware division traps on this operand pair). *)
Special(ty, op, a, b) == IF op \in {"/", "%"} /\ IsMin(ty, a) /\ b = Z(TRUE, <<1>>) THEN "min-by-minus-one" ELSE ""

Lit(x) == [neg |-> x.neg, d |-> NToDec(x.mag)]

VARIABLES ty, op, a, b
vars == <<ty, op, a, b>>
(* one initial state per type, so that TLC's workers enumerate the cases of different types side by side *)
Init == ty \in Types /\ op = "" /\ a = Z(FALSE, <<>>) /\ b = Z(FALSE, <<>>)
Binary == /\ ty' = ty
          /\ op' \in ArithOps \cup CmpOps
          /\ a' \in BoundaryOf[ty'] /\ b' \in BoundaryOf[ty']
          /\ Defined(ty', op', a', b')
Unary == /\ ty' = ty
         /\ op' \in {"neg", "dup+", "dup-", "dup*"} \cup { "as " \o TyName(t2) : t2 \in Types \ {ty'} }   \* dup: a (op) a
         /\ (op' = "neg" => ty'.s)
         /\ a' \in BoundaryOf[ty'] /\ b' = Z(FALSE, <<>>)
Next == op = "" /\ (Binary \/ Unary)          \* one step from the initial state to each case
Spec == Init /\ [][Next]_vars
Emit == op = "" \/ PrintT("@@CASE " \o ToJson([ty |-> TyName(ty), op |-> op, a |-> Lit(a), b |-> Lit(b),
                                                  sp |-> IF op \in ArithOps THEN Special(ty, op, a, b) ELSE ""]))
=============================================================================
