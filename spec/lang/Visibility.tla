----------------------------- MODULE Visibility -----------------------------
(* C12 — visibility by capitalisation is enforced across modules and types.

   Module-level symbols (function, constant, variable, type): a lowercase symbol may be named only
   inside its own module.  Struct fields: a lowercase field may be read or written only through the
   receiver inside a method of its type; struct literals may initialise it anywhere.
       AllowedSym(a)   == a.site = "own" \/ a.exported
       AllowedField(a) == a.exported \/ a.op = "literal" \/ (a.site = "recv" /\ a.ctx # "nested")
   ("nested" is recv.In.fld inside a method of the OUTER type: the base of the access is not the
   receiver and the method is not a method of the field's type, so a lowercase field is forbidden)
   The enumerator is the full product symbol kind x case x access site x syntactic context x import
   shape restricted to well-formed combinations. *)
EXTENDS Integers, Sequences, FiniteSets, TLC, Json

SymKinds == {"fn", "const", "var", "type", "enum"}
Sites == {"own", "cross"}
Imports == {"direct", "alias", "nested"}
ValueCtx == {"plain", "paren", "arg", "binop", "cond", "elem", "ret", "closure", "compound", "match", "cast", "write",
             "range", "rangelo", "index", "unary", "assignrhs", "structinit", "whilecond"}
(* an enum type is named through its variants (mod::enum::Variant) in value positions, and as a type *)
EnumCtx == {"variant_init", "variant_arg", "variant_cmp", "variant_match", "variant_ret", "lettype", "param"}
TypeCtx == {"lettype", "param", "rettype", "fieldtype", "elemtype", "literal"}
CtxOK(k, c) == CASE k = "type" -> c \in TypeCtx
                 [] k = "enum" -> c \in EnumCtx
                 [] k = "var" -> c \in ValueCtx
                 [] OTHER -> c \in ValueCtx \ {"write"}

FieldSites == {"recv", "peer", "free_own", "cross", "shadow_let", "shadow_for", "shadow_param"}
(* shadow_*: inside a method of the field's type, through a binding of a nested scope (a let in an
   inner block, a for iterator, a closure parameter) that has the SAME NAME as the receiver: it is
   not the receiver, so a lowercase field is forbidden *)
FieldOps == {"read", "write", "compound", "borrow", "literal"}
FieldCtx == {"plain", "paren", "nested", "arg", "closure", "cond"}
FieldOK(s, o, c) == IF s \in {"shadow_let", "shadow_for", "shadow_param"} THEN o \in {"read", "write"} /\ c \in {"plain", "paren", "arg", "cond"}
                    ELSE IF o = "literal" THEN c = "plain" /\ s \in {"free_own", "cross"}
                    ELSE IF o \in {"write", "compound", "borrow"} THEN c \in {"plain", "paren", "nested", "closure"}
                    ELSE TRUE

AllowedSym(site, exported) == site = "own" \/ exported
AllowedField(site, op, exported, ctx) == exported \/ op = "literal" \/ (site = "recv" /\ ctx # "nested")

VARIABLE a
SymCases == {[fam |-> "sym", kind |-> k, exported |-> e, site |-> s, ctx |-> c, imp |-> i] :
                k \in SymKinds, e \in BOOLEAN, s \in Sites, c \in ValueCtx \cup TypeCtx \cup EnumCtx, i \in Imports}
(* twin: the struct type also has a METHOD with the field's name (fields and methods share the selector syntax) *)
FieldCases == {[fam |-> "field", exported |-> e, site |-> s, op |-> o, ctx |-> c, imp |-> i, twin |-> t] :
                e \in BOOLEAN, s \in FieldSites, o \in FieldOps, c \in FieldCtx, i \in Imports, t \in BOOLEAN}
Init == a \in {x \in SymCases : CtxOK(x.kind, x.ctx) /\ (x.site = "own" => x.imp = "direct")}
             \cup {x \in FieldCases : FieldOK(x.site, x.op, x.ctx) /\ (x.site # "cross" => x.imp = "direct")}
Next == UNCHANGED a
Spec == Init /\ [][Next]_a

Allowed == IF a.fam = "sym" THEN AllowedSym(a.site, a.exported) ELSE AllowedField(a.site, a.op, a.exported, a.ctx)
B2S(b) == IF b THEN "pub" ELSE "priv"
Key == IF a.fam = "sym"
       THEN "C12|sym|" \o a.kind \o "|" \o B2S(a.exported) \o "|" \o a.site \o "|" \o a.ctx \o "|" \o a.imp
       ELSE "C12|field|" \o B2S(a.exported) \o "|" \o a.site \o "|" \o a.op \o "|" \o a.ctx \o "|" \o a.imp
            \o (IF a.twin THEN "|method-of-same-name" ELSE "")
Emit == PrintT("@@CASE " \o ToJson([c |-> a, allowed |-> Allowed, key |-> Key]))
=============================================================================
