SPECIFICATION Spec
CONSTANTS
  Kind = "str"
  MaxLen = 4
  InitLen = 3
INVARIANT OobIsSticky
VIEW View
ACTION_CONSTRAINT EmitAC
CHECK_DEADLOCK FALSE
