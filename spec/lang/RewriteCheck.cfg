SPECIFICATION Spec
POSTCONDITION Done
CHECK_DEADLOCK FALSE
