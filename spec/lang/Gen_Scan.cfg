SPECIFICATION Spec
CONSTANT MaxLen = 6
INVARIANT Emit
CHECK_DEADLOCK FALSE
