---------------------------- MODULE ReturnPaths ----------------------------
(* C05 — a non-void function always returns a value from a return statement.

   Bodies are trees over
     ret | print | break | continue
     if(t) | ifelse(t,e) | elif(t,u,e) | match1(a,d) | match2(a,b,d)        d = <<"none">> : no default
     while(b) | whiletrue(b) | for(b)
   Every compound statement tests its OWN parameter (numbered in pre-order), so every syntactic path
   is feasible:  if: p = 1;  elif: p = 1, p = 2;  match arms: 1, 2;  while/for: p iterations.
   Every `ret` returns its own pre-order number (+100).

   Eval is a definitional interpreter (what the call returns for a parameter vector, or that it runs
   off the end, or that it never returns).  FT is the structural rule "can fall through".  TLC checks
   on every enumerated body that the two agree:  FT(body) <=> \E params : Eval(body, params) = fall.
   The driver then requires:  CanFallOff(body) => the compiler rejects it;  and for accepted bodies
   every terminating call prints exactly the value of the return statement the specification took. *)
EXTENDS Integers, Sequences, FiniteSets, TLC, Json

S(k) == [k |-> k]
Ret == S("ret")  Prt == S("print")  Break == S("break")  Continue == S("continue")
NoDefault == <<[k |-> "nodefault"]>>

If(t)            == [k |-> "if", t |-> t]
IfElse(t, e)     == [k |-> "ifelse", t |-> t, e |-> e]
Elif(t, u, e)    == [k |-> "elif", t |-> t, u |-> u, e |-> e]
Match1(a, d)     == [k |-> "match1", a |-> a, d |-> d]
Match2(a, b, d)  == [k |-> "match2", a |-> a, b |-> b, d |-> d]
While(b)         == [k |-> "while", b |-> b]
WhileTrue(b)     == [k |-> "whiletrue", b |-> b]
For(b)           == [k |-> "for", b |-> b]

IsLeaf(s) == s.k \in {"ret", "print", "break", "continue"}
IsLoop(s) == s.k \in {"while", "whiletrue", "for"}

(* sub-blocks of a compound statement, in source order *)
Subs(s) == CASE s.k = "if" -> <<s.t>>
             [] s.k = "ifelse" -> <<s.t, s.e>>
             [] s.k = "elif" -> <<s.t, s.u, s.e>>
             [] s.k = "match1" -> IF s.d = NoDefault THEN <<s.a>> ELSE <<s.a, s.d>>
             [] s.k = "match2" -> IF s.d = NoDefault THEN <<s.a, s.b>> ELSE <<s.a, s.b, s.d>>
             [] s.k \in {"while", "whiletrue", "for"} -> <<s.b>>
             [] OTHER -> <<>>

(* pre-order counts: number of ret statements / of compound statements in a block *)
RECURSIVE NRet(_), NCmp(_), NRetSeq(_), NCmpSeq(_)
NRetSeq(bs) == IF bs = <<>> THEN 0 ELSE NRet(Head(bs)) + NRetSeq(Tail(bs))
NCmpSeq(bs) == IF bs = <<>> THEN 0 ELSE NCmp(Head(bs)) + NCmpSeq(Tail(bs))
NRet(b) == IF b = <<>> THEN 0
           ELSE (IF Head(b).k = "ret" THEN 1 ELSE IF IsLeaf(Head(b)) THEN 0 ELSE NRetSeq(Subs(Head(b)))) + NRet(Tail(b))
NCmp(b) == IF b = <<>> THEN 0
           ELSE (IF IsLeaf(Head(b)) THEN 0 ELSE 1 + NCmpSeq(Subs(Head(b)))) + NCmp(Tail(b))

(* ---- definitional interpreter ----
   result: [o |-> "ret", v] | [o |-> "fall"] | [o |-> "break"] | [o |-> "continue"] | [o |-> "diverge"]
   rb / cb: numbers of ret / compound statements that precede the block in pre-order
   p: parameter vector (sequence), fuel bounds `while true` *)
R(o) == [o |-> o, v |-> 0]
RECURSIVE EvalB(_, _, _, _), EvalS(_, _, _, _), Loop(_, _, _, _, _, _)
(* offsets of the i-th sub-block of s *)
RECURSIVE PrefR(_, _), PrefC(_, _)
PrefR(bs, i) == IF i = 1 THEN 0 ELSE NRet(bs[i - 1]) + PrefR(bs, i - 1)
PrefC(bs, i) == IF i = 1 THEN 0 ELSE NCmp(bs[i - 1]) + PrefC(bs, i - 1)
Sub(s, i, rb, cb, p) == EvalB(Subs(s)[i], rb + PrefR(Subs(s), i), cb + 1 + PrefC(Subs(s), i), p)

EvalS(s, rb, cb, p) ==
    LET x == p[cb + 1] IN        \* this statement's own parameter
    CASE s.k = "ret" -> [o |-> "ret", v |-> 100 + rb + 1]
      [] s.k = "print" -> R("fall")
      [] s.k = "break" -> R("break")
      [] s.k = "continue" -> R("continue")
      [] s.k = "if" -> IF x = 1 THEN Sub(s, 1, rb, cb, p) ELSE R("fall")
      [] s.k = "ifelse" -> IF x = 1 THEN Sub(s, 1, rb, cb, p) ELSE Sub(s, 2, rb, cb, p)
      [] s.k = "elif" -> IF x = 1 THEN Sub(s, 1, rb, cb, p) ELSE IF x = 2 THEN Sub(s, 2, rb, cb, p)
                         ELSE Sub(s, 3, rb, cb, p)
      [] s.k = "match1" -> IF x = 1 THEN Sub(s, 1, rb, cb, p)
                           ELSE IF s.d = NoDefault THEN R("fall") ELSE Sub(s, 2, rb, cb, p)
      [] s.k = "match2" -> IF x = 1 THEN Sub(s, 1, rb, cb, p) ELSE IF x = 2 THEN Sub(s, 2, rb, cb, p)
                           ELSE IF s.d = NoDefault THEN R("fall") ELSE Sub(s, 3, rb, cb, p)
      [] s.k \in {"while", "for"} -> Loop(s, rb, cb, p, x, FALSE)
      [] s.k = "whiletrue" -> Loop(s, rb, cb, p, 3, TRUE)
(* n: iterations left; forever: `while true` (after 3 identical iterations it never exits) *)
Loop(s, rb, cb, p, n, forever) ==
    IF n = 0 THEN (IF forever THEN R("diverge") ELSE R("fall"))
    ELSE LET r == Sub(s, 1, rb, cb, p) IN
         IF r.o = "ret" \/ r.o = "diverge" THEN r
         ELSE IF r.o = "break" THEN R("fall")
         ELSE Loop(s, rb, cb, p, n - 1, forever)           \* fall / continue: next iteration
EvalB(b, rb, cb, p) ==
    IF b = <<>> THEN R("fall")
    ELSE LET r == EvalS(Head(b), rb, cb, p) IN
         IF r.o = "fall"
         THEN EvalB(Tail(b), rb + NRet(<<Head(b)>>), cb + NCmp(<<Head(b)>>), p)
         ELSE r
Eval(body, p) == EvalB(body, 0, 0, p)

(* ---- the structural rule ---- *)
RECURSIVE FT(_), FTS(_), HasBreak(_), HasBreakS(_)
(* a break that belongs to the enclosing loop and is reachable along some path *)
HasBreakS(s) == CASE s.k = "break" -> TRUE
                  [] IsLeaf(s) -> FALSE
                  [] IsLoop(s) -> FALSE
                  [] OTHER -> \E i \in 1 .. Len(Subs(s)) : HasBreak(Subs(s)[i])
HasBreak(b) == IF b = <<>> THEN FALSE
               ELSE HasBreakS(Head(b)) \/ (FTS(Head(b)) /\ HasBreak(Tail(b)))
FTS(s) == CASE s.k \in {"ret", "break", "continue"} -> FALSE
            [] s.k = "print" -> TRUE
            [] s.k = "if" -> TRUE
            [] s.k = "ifelse" -> FT(s.t) \/ FT(s.e)
            [] s.k = "elif" -> FT(s.t) \/ FT(s.u) \/ FT(s.e)
            [] s.k = "match1" -> FT(s.a) \/ (IF s.d = NoDefault THEN TRUE ELSE FT(s.d))
            [] s.k = "match2" -> FT(s.a) \/ FT(s.b) \/ (IF s.d = NoDefault THEN TRUE ELSE FT(s.d))
            [] s.k \in {"while", "for"} -> TRUE
            [] s.k = "whiletrue" -> HasBreak(s.b)
FT(b) == IF b = <<>> THEN TRUE ELSE FTS(Head(b)) /\ FT(Tail(b))
CanFallOff(body) == FT(body)

(* ---- the bounded space of bodies ---- *)
LeafNL == {Ret, Prt}
LeafL  == {Ret, Prt, Break, Continue}
Blk0(L) == {<<>>} \cup {<<l>> : l \in L} \cup {<<Prt, l>> : l \in L \ {Prt}}
Opt(B) == B \cup {NoDefault}
Loops(B) == {While(b) : b \in B} \cup {WhileTrue(b) : b \in B} \cup {For(b) : b \in B}
Cmp1NL == {If(t) : t \in Blk0(LeafNL)} \cup {IfElse(t, e) : t \in Blk0(LeafNL), e \in Blk0(LeafNL)}
          \cup {Elif(t, u, e) : t \in Blk0(LeafNL), u \in Blk0(LeafNL), e \in Blk0(LeafNL)}
          \cup {Match1(a, d) : a \in Blk0(LeafNL), d \in Opt(Blk0(LeafNL))}
          \cup {Match2(a, b, d) : a \in Blk0(LeafNL), b \in Blk0(LeafNL), d \in Opt(Blk0(LeafNL))}
          \cup Loops(Blk0(LeafL))
Cmp1L  == {If(t) : t \in Blk0(LeafL)} \cup {IfElse(t, e) : t \in Blk0(LeafL), e \in Blk0(LeafL)}
          \cup {Match1(a, d) : a \in Blk0(LeafL), d \in Opt(Blk0(LeafL))}
          \cup Loops(Blk0(LeafL))
Blk1L  == {<<c>> : c \in Cmp1L} \cup {<<c, l>> : c \in Cmp1L, l \in LeafL}
Blk1NL == {<<c>> : c \in Cmp1NL} \cup {<<c, l>> : c \in Cmp1NL, l \in LeafNL}
Cmp2   == Loops(Blk1L) \cup {If(t) : t \in Blk1NL}
          \cup {IfElse(t, e) : t \in Blk1NL, e \in {<<Ret>>, <<Prt>>}}
          \cup {Match1(a, d) : a \in Blk1NL, d \in {NoDefault, <<Ret>>}}
Tops   == Cmp1NL \cup Cmp2
CONSTANT Depth
Bodies == IF Depth = 1 THEN {<<s>> : s \in Cmp1NL} \cup {<<s, Ret>> : s \in Cmp1NL}
          ELSE {<<s>> : s \in Tops} \cup {<<s, Ret>> : s \in Tops}
               \cup {<<s, t>> : s \in Loops(Blk0(LeafL)), t \in {If(<<Ret>>), Match1(<<Ret>>, NoDefault),
                                                                Match1(<<Ret>>, <<Ret>>), WhileTrue(<<Ret>>),
                                                                WhileTrue(<<Break>>), IfElse(<<Ret>>, <<Ret>>)}}

Params(n) == [1 .. n -> {0, 1, 2}]

VARIABLE body
Init == body \in Bodies
Next == UNCHANGED body
Spec == Init /\ [][Next]_body

FallsFor(b) == \E p \in Params(NCmp(b)) : Eval(b, p).o = "fall"
(* design-level theorem: the structural rule is exactly "some execution runs off the end" *)
RuleMatchesPaths == CanFallOff(body) <=> FallsFor(body)

Runs(b) == LET ps == Params(NCmp(b)) IN
           {[p |-> p, r |-> Eval(b, p)] : p \in ps}
RECURSIVE SetToSeq(_)
SetToSeq(X) == IF X = {} THEN <<>> ELSE LET x == CHOOSE y \in X : TRUE IN <<x>> \o SetToSeq(X \ {x})
Case == [body |-> body, canFallOff |-> CanFallOff(body), nparams |-> NCmp(body), nrets |-> NRet(body),
         runs |-> SetToSeq(Runs(body))]
Emit == PrintT("@@CASE " \o ToJson(Case))
=============================================================================
