SPECIFICATION Spec
CONSTANT Depth = 1
INVARIANTS RuleMatchesPaths Emit
CHECK_DEADLOCK FALSE
