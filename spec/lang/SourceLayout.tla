---------------------------- MODULE SourceLayout ----------------------------
(* C19 — layout of the source text does not change meaning; diagnostics follow the text.

   A program is its token sequence; a layout assigns trivia to the gaps between tokens.  Trivia is a
   sequence of character classes:  "s" a blank or any other printable character (also the characters
   of a comment), "t" a tab, "n" a newline.  The position calculus is that of source.Position.Advance:
        n : line + 1, column 1          t : column + 4          s : column + 1
   (a character immediately after a tab inside one skipped chunk does not advance the column: the
    calculus below is only applied to trivia in which no character follows a tab, and the scanner
    itself is checked against the real Advance on arbitrary character sequences, ScanOK).
   Inserting trivia T in front of the token that starts at position G moves every position P of the
   original text to Shift(P, G, T):
        P before G                      unchanged
        P after G, on G's line          same line: column + Width(T) if T has no newline, otherwise
                                        line + Newlines(T), column (P.col - G.col) + TailWidth(T) + 1
        P on a later line               line + Newlines(T)
        P = G                           either of the two (a diagnostic at the end of the previous token and
                                        one at the start of the next token coincide when they touch)
   Each record of trace.ndjson is one diagnostic of a re-laid-out program together with the position
   the same diagnostic has in the original program; the specification decides whether it moved
   exactly with the inserted text. *)
EXTENDS Integers, Sequences, TLC, Json

Trace == ndJsonDeserialize("trace.ndjson")

Newlines(t) == Len(SelectSeq(t, LAMBDA c : c = "n"))
W(c) == IF c = "t" THEN 4 ELSE 1
RECURSIVE WidthOf(_)
WidthOf(t) == IF t = <<>> THEN 0 ELSE W(Head(t)) + WidthOf(Tail(t))
RECURSIVE AfterLastNl(_, _)
AfterLastNl(t, acc) == IF t = <<>> THEN acc ELSE IF Head(t) = "n" THEN AfterLastNl(Tail(t), <<>>)
                       ELSE AfterLastNl(Tail(t), Append(acc, Head(t)))
TailWidth(t) == WidthOf(AfterLastNl(t, <<>>))

Before(p, g) == p[1] < g[1] \/ (p[1] = g[1] /\ p[2] < g[2])
Moved(p, g, t) == IF Newlines(t) = 0
                  THEN (IF p[1] = g[1] THEN <<p[1], p[2] + WidthOf(t)>> ELSE p)
                  ELSE (IF p[1] = g[1] THEN <<p[1] + Newlines(t), (p[2] - g[2]) + TailWidth(t) + 1>>
                        ELSE <<p[1] + Newlines(t), p[2]>>)
ShiftOK(p, g, t, q) == IF Before(p, g) THEN q = p
                       ELSE IF p = g THEN q = p \/ q = Moved(p, g, t)
                       ELSE q = Moved(p, g, t)

(* the scanner on a whole character sequence, from 1:1 -- compared with the real Position.Advance *)
RECURSIVE Scan(_, _, _, _)
Scan(cs, line, col, afterTab) ==
    IF cs = <<>> THEN <<line, col>>
    ELSE LET c == Head(cs) IN
         IF c = "n" THEN Scan(Tail(cs), line + 1, 1, FALSE)
         ELSE IF c = "t" THEN Scan(Tail(cs), line, col + 4, TRUE)
         ELSE Scan(Tail(cs), line, IF afterTab THEN col ELSE col + 1, FALSE)

VARIABLE l
Ev == Trace[l]
Ok(e) == CASE e.k = "diag" -> ShiftOK(e.p, e.g, e.t, e.q)
           [] e.k = "scan" -> Scan(e.cs, 1, 1, FALSE) = e.q
Init == l = 1
Next == l <= Len(Trace) /\ Ok(Ev) /\ l' = l + 1
Spec == Init /\ [][Next]_l
TraceAccepted == TLCGet("stats").diameter - 1 = Len(Trace)
=============================================================================
