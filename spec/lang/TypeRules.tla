------------------------------ MODULE TypeRules ------------------------------
(* C03 — statically ill-typed programs are rejected.

   Rule-local judgments: each of the rule classes of the property is stated as a predicate over the
   types (or counts, names) that occur in one small program fragment; the fragment is placed at every
   syntactic site; everything around it is well typed by construction and controlled by the fragment's
   well-typed twin, which the real compiler must accept.  A case is (rule, parameters, site) with
       ill == the rule's premise is violated.
   Only ill = TRUE cases carry an obligation (never compiled, an error is reported); ill = FALSE cases
   are the controls of the enumeration itself (they must be accepted, otherwise the renderer is wrong). *)
EXTENDS Integers, Sequences, FiniteSets, TLC, Json

Num == {"i8", "i32", "i64", "u32", "f32", "f64"}
IsFloat(t) == t \in {"f32", "f64"}
Bits(t) == CASE t = "i8" -> 8 [] t \in {"i32", "u32", "f32"} -> 32 [] OTHER -> 64
Signed(t) == t \in {"i8", "i32", "i64"}
(* implicit numeric conversion is allowed only when every value is representable (see NumConv) *)
Lossless(s, t) == IF s = t THEN TRUE
                  ELSE IF IsFloat(s) THEN IsFloat(t) /\ Bits(s) <= Bits(t)
                  ELSE IF IsFloat(t) THEN (IF Signed(s) THEN Bits(s) - 1 ELSE Bits(s)) <= (IF t = "f32" THEN 24 ELSE 53)
                  ELSE IF Signed(s) THEN Signed(t) /\ Bits(s) <= Bits(t)
                  ELSE IF Signed(t) THEN Bits(s) < Bits(t) ELSE Bits(s) <= Bits(t)

Sites == {"fn", "method", "closure", "if", "else", "while", "for", "match", "catch", "block"}
Plain == {"i32", "str", "bool"}

C(rule, a, b, c, ill) == [rule |-> rule, a |-> a, b |-> b, c |-> c, ill |-> ill]

(* the property names ARITHMETIC between different numeric types; comparisons are not demanded *)
R1  == {C("mixarith", x, y, op, x # y) : x \in Num, y \in Num, op \in {"+", "*", "-", "/"}}
R2  == {C("narrow", s, t, pos, ~Lossless(s, t)) : s \in Num, t \in Num, pos \in {"let", "assign"}}
R3  == {C("nonbool", ctx, t, "", t # "bool") : ctx \in {"if", "while", "and", "or", "not"}, t \in {"bool", "i32", "str", "f64"}}
D == {"0", "1", "2", "3", "4"}
N(d) == CASE d = "0" -> 0 [] d = "1" -> 1 [] d = "2" -> 2 [] d = "3" -> 3 [] d = "4" -> 4
R4  == {C("argcount", callee, ar, n, ar # n) : callee \in {"fn", "method", "closure"}, ar \in {"0", "1", "2"}, n \in {"0", "1", "2", "3"}}
R5  == {C("argtype", callee, p, q, p # q) : callee \in {"fn", "method", "closure"}, p \in Plain, q \in Plain}
R6  == {C("undefined", k, "", "", TRUE) : k \in {"var", "fn", "type", "field", "method", "module"}}
       \cup {C("undefined", k, "declared", "", FALSE) : k \in {"var", "fn", "type", "field", "method"}}
R7  == {C("redeclared", k, same, "", same = "same") : k \in {"let", "param", "fn", "type", "const"}, same \in {"same", "other"}}
(* b = "afterlit": the function's body holds a function literal with ANOTHER return type before the return *)
R8  == {C("return", v, w, "", v # "ok") : v \in {"ok", "wrongtype", "missingvalue", "valueinvoid", "narrow", "optional", "bang"},
                                           w \in {"", "afterlit"}}
(* comparing an optional with a value is not a use "where T is required": not demanded *)
R9  == {C("optional", use, h, "", h = "raw") : use \in {"arith", "assign", "arg", "ret"}, h \in {"raw", "coalesced"}}
R10 == {C("field", v, "", "", v # "ok") : v \in {"ok", "unknownlit", "missinglit", "mistypedlit", "unknownaccess", "mistypedassign"}}
R11 == {C("arrinit", n, len, "", N(n) > N(len)) : n \in {"1", "2", "3", "4"}, len \in {"1", "2", "3"}}
R12 == {C("callnonfn", t, "", "", t # "fn") : t \in {"fn", "i32", "str", "struct"}}
R13 == {C("unhandled", callee, ar, use, use \in {"let", "arg", "stmt", "ret"}) :
            callee \in {"fn", "method", "closure"}, ar \in {"0", "1", "2"}, use \in {"let", "arg", "stmt", "ret", "caught"}}
R14 == {C("bang", host, "", "", host # "resultfn") : host \in {"resultfn", "voidfn", "valuefn", "closure"}}
(* a name is visible from its declaration to the end of the block that declares it (and in nested blocks);
   shape = where the declaration and the use are relative to each other *)
ScopeLegal == {"same", "inner", "inner_closure"}
ScopeIll == {"then_else", "then_elseif_cond", "then_elseif_body", "then_after", "else_after", "elseif_else", "while_after",
             "for_after", "forvar_after", "block_after", "arm_other", "arm_after", "closure_after", "catch_after",
             "catchvar_after", "fn_other", "param_other"}
R15 == {C("scope", sh, "", "", sh \in ScopeIll) : sh \in ScopeLegal \cup ScopeIll}
Rules == R15 \cup R1 \cup R2 \cup R3 \cup R4 \cup R5 \cup R6 \cup R7 \cup R8 \cup R9 \cup R10 \cup R11 \cup R12 \cup R13 \cup R14

(* rules whose fragment is a whole declaration are site-independent *)
SiteFree(r) == r.rule \in {"redeclared", "return", "bang"} /\ r.a \in {"fn", "type", "param", "ok", "wrongtype", "missingvalue",
                                                                     "valueinvoid", "narrow", "resultfn", "voidfn", "valuefn"}
VARIABLES r, site
Init == r \in Rules /\ site \in Sites /\ (SiteFree(r) => site = "fn")
Next == UNCHANGED <<r, site>>
Spec == Init /\ [][Next]_<<r, site>>
ToS(x) == x
Key == "C03|" \o r.rule \o "|" \o ToS(r.a) \o "|" \o ToS(r.b) \o "|" \o ToS(r.c) \o "|" \o site
Emit == PrintT("@@CASE " \o ToJson([rule |-> r.rule, a |-> ToS(r.a), b |-> ToS(r.b), c |-> ToS(r.c), ill |-> r.ill,
                                    site |-> site, key |-> Key]))
=============================================================================
