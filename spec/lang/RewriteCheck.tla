---------------------------- MODULE RewriteCheck ----------------------------
(* C09: behaviour does not depend on what the compiler can evaluate early.
   cases.ndjson holds one record per (program, rewritten program) pair:
     [id, prog, prog2, acc, acc2, out, halt, out2, halt2]
   prog2 = Rewrite(prog) for one of LitToCall / BindToLocal / LetToConst / WrapIfTrue at one site;
   acc / acc2: whether the compiler accepted each; out / halt, out2 / halt2: what each executable did
   (empty when not accepted).
   The specification decides
     same    the rewrite is meaning preserving in FerretSem:  Run(prog2) = Run(prog)   (else the pair is void:
             a defect of the rewriting harness, never blamed on the compiler);
     treated the compiler treats both the same;
     agree   both executables behave the same;
     ok, ok2 each executable behaves as Run prescribes (names the side that is wrong). *)
EXTENDS FerretSem
Cases == ndJsonDeserialize("cases.ndjson")
VARIABLE ci
Init == ci = 1
Verdict(c) == LET r == Run(c.prog)  r2 == Run(c.prog2) IN
              [id |-> c.id, same |-> (r = r2), treated |-> (c.acc = c.acc2),
               agree |-> (c.out = c.out2 /\ c.halt = c.halt2),
               ok |-> (~c.acc \/ (r.out = c.out /\ r.halt = c.halt)),
               ok2 |-> (~c.acc2 \/ (r2.out = c.out2 /\ r2.halt = c.halt2)),
               fuel |-> (r.halt = "fuel")]
Preserved(v) == v.same => (v.treated /\ v.agree)        \* the property, per pair
Next == /\ ci <= Len(Cases) /\ ci' = ci + 1
        /\ LET v == Verdict(Cases[ci]) IN PrintT("@@OUT " \o ToJson([v EXCEPT !.id = v.id] @@ [holds |-> Preserved(v)]))
Spec == Init /\ [][Next]_ci
Done == TLCGet("stats").diameter - 1 = Len(Cases)
=============================================================================
