------------------------------ MODULE FerretSem ------------------------------
(* Definitional interpreter of core Ferret (C01, C02, C09, C18): what an accepted program prints and
   how it terminates.  The semantics is the one the properties state, not the compiler's algorithm:
     - fixed-width two's-complement integers of the 12 widths, every arithmetic result wrapped at the
       declared width (BigNum), truncating division and remainder, casts between integer types wrap;
     - operands and arguments evaluated left to right;
     - structs and fixed arrays are values: binding, assignment, passing and returning copy them;
     - references are paths into a frame: a write through a reference is a write to the referent;
     - indexing normalises a negative index by adding the length; outside [0, len) the program stops
       with a panic after the lines printed so far;
     - `match` takes the first arm whose literal equals the value, else the default;
     - a result-returning call yields ok(v) or err(e); `catch` binds the error and gives the fallback;
     - an optional is none or some(v); `e ?? d` is v or d, `e == none` tests the discriminant;
     - a function literal captures the variables of its enclosing function (generated programs never
       change a captured variable after the literal is evaluated, so by-value and by-reference capture agree);
     - `x op= e`, `x++`, `x--` read and write the place once and wrap at the place's type.
   Programs are JSON ASTs (kind tag k).  Run(P) = [out |-> lines, halt |-> "exit0" | "panic"].

   Every value is a tagged record (TLC cannot compare records of different shapes with non-records):
     int  [t |-> "i", ty |-> [s, b], z |-> Z]        bool [t |-> "b", v]        str [t |-> "s", v]
     struct [t |-> "st", f |-> [name -> value]]       array [t |-> "ar", e |-> Seq(value)]
     ref  [t |-> "r", fr |-> frame, p |-> path]       result [t |-> "rs", ok, v]     unit [t |-> "u"]
     optional [t |-> "o", some, v]                    closure [t |-> "c", ps, body, env] *)
EXTENDS BigNum, TLC, Json

Unit == [t |-> "u"]
IntV(ty, z) == [t |-> "i", ty |-> ty, z |-> z]
BoolV(b) == [t |-> "b", v |-> b]

ZDivT(a, b) == LET r == NDivMod2(a.mag, b.mag) IN Z(a.neg # b.neg, r.q)
ZRemT(a, b) == LET r == NDivMod2(a.mag, b.mag) IN Z(a.neg, r.r)
WrapTo(x, ty) == Decode(Encode(x, ty.b), ty.b, ty.s)

RECURSIVE DigStr(_, _)
DigStr(ds, i) == IF i > Len(ds) THEN "" ELSE ToString(ds[i]) \o DigStr(ds, i + 1)
ZStr(x) == (IF x.neg THEN "-" ELSE "") \o DigStr(NToDec(x.mag), 1)

(* ---- frames and paths ---- *)
Bind(env, n, v) == [x \in (DOMAIN env) \cup {n} |-> IF x = n THEN v ELSE env[x]]
RECURSIVE GetAt(_, _, _), SetAt(_, _, _, _)
GetAt(v, p, i) == IF i > Len(p) THEN v
                  ELSE IF v.t = "st" THEN GetAt(v.f[p[i]], p, i + 1)
                  ELSE GetAt(v.e[p[i]], p, i + 1)                         \* array element, 1-based position
SetAt(v, p, i, nv) == IF i > Len(p) THEN nv
                      ELSE IF v.t = "st" THEN [v EXCEPT !.f[p[i]] = SetAt(v.f[p[i]], p, i + 1, nv)]
                      ELSE [v EXCEPT !.e[p[i]] = SetAt(v.e[p[i]], p, i + 1, nv)]
(* a place: frame index + path whose first element is a variable name *)
ReadPlace(st, pl) == GetAt(st.fr[pl.fr][pl.p[1]], pl.p, 2)
WritePlace(st, pl, v) == [st EXCEPT !.fr[pl.fr] = Bind(@, pl.p[1], SetAt(st.fr[pl.fr][pl.p[1]], pl.p, 2, v))]
Cur(st) == Len(st.fr)
Panic(st) == [st EXCEPT !.ctl = "panic"]
Stopped(st) == st.ctl = "panic" \/ st.ctl = "fuel"

RECURSIVE EvalE(_, _, _), EvalArgs(_, _, _, _, _), ExecB(_, _, _, _), ExecS(_, _, _), PlaceOf(_, _, _),
          Loop(_, _, _, _), ForLoop(_, _, _, _, _, _), ForIn(_, _, _, _, _), ForStep(_, _, _, _, _, _, _), MatchArms(_, _, _, _, _), StructFields(_, _, _, _, _),
          ArrElems(_, _, _, _, _), Deref(_, _)

(* follow references until a non-reference value *)
Deref(st, v) == IF v.t = "r" THEN Deref(st, ReadPlace(st, [fr |-> v.fr, p |-> v.p])) ELSE v

NormIdx(iz, len) == LET k == IF iz.neg THEN ZAdd(iz, ZFromNat(NFromInt(len))) ELSE iz
                    IN IF k.neg \/ NCmp(k.mag, NFromInt(len)) >= 0 THEN -1
                       ELSE IF k.mag = <<>> THEN 0 ELSE k.mag[1] + (IF Len(k.mag) > 1 THEN 32768 * k.mag[2] ELSE 0)

(* the place an lvalue denotes; [pl, st, ok] -- evaluating an index expression may print or panic *)
PlaceOf(P, e, st) ==
    CASE e.k = "var" ->
            LET v == st.fr[Cur(st)][e.n] IN
            IF v.t = "r" THEN [pl |-> [fr |-> v.fr, p |-> v.p], st |-> st]      \* through a reference
            ELSE [pl |-> [fr |-> Cur(st), p |-> <<e.n>>], st |-> st]
      [] e.k = "field" -> LET b == PlaceOf(P, e.e, st) IN
            [pl |-> [b.pl EXCEPT !.p = Append(@, e.f)], st |-> b.st]
      [] e.k = "index" -> LET b == PlaceOf(P, e.e, st)
                              i == EvalE(P, e.i, b.st)
                              arr == IF Stopped(i.st) THEN Unit ELSE ReadPlace(i.st, b.pl)
                              k == IF Stopped(i.st) THEN 0 ELSE NormIdx(i.v.z, Len(arr.e))
                          IN IF Stopped(i.st) THEN [pl |-> b.pl, st |-> i.st]
                             ELSE IF k < 0 THEN [pl |-> b.pl, st |-> Panic(i.st)]
                             ELSE [pl |-> [b.pl EXCEPT !.p = Append(@, k + 1)], st |-> i.st]
      [] e.k = "paren" -> PlaceOf(P, e.e, st)

Arith(op, a, b) == CASE op = "+" -> ZAdd(a, b) [] op = "-" -> ZSub(a, b) [] op = "*" -> ZMul(a, b)
                     [] op = "/" -> ZDivT(a, b) [] op = "%" -> ZRemT(a, b)
CmpOp(op, c) == CASE op = "<" -> c < 0 [] op = "<=" -> c <= 0 [] op = ">" -> c > 0 [] op = ">=" -> c >= 0
                  [] op = "==" -> c = 0 [] op = "!=" -> c # 0

EvalE(P, e, st) ==
    IF Stopped(st) THEN [v |-> Unit, st |-> st] ELSE
    CASE e.k = "int"  -> [v |-> IntV(e.ty, WrapTo(Z(e.neg, NFromDec(e.d)), e.ty)), st |-> st]
      [] e.k = "bool" -> [v |-> BoolV(e.v), st |-> st]
      [] e.k = "str"  -> [v |-> [t |-> "s", v |-> e.v], st |-> st]
      [] e.k = "var"  -> [v |-> Deref(st, st.fr[Cur(st)][e.n]), st |-> st]
      [] e.k = "rawvar" -> [v |-> st.fr[Cur(st)][e.n], st |-> st]           \* a reference passed on as a reference
      [] e.k = "paren" -> EvalE(P, e.e, st)
      [] e.k = "bin"  -> LET a == EvalE(P, e.l, st)  b == EvalE(P, e.r, a.st) IN
            IF Stopped(b.st) THEN [v |-> Unit, st |-> b.st]
            ELSE [v |-> IntV(e.ty, WrapTo(Arith(e.op, a.v.z, b.v.z), e.ty)), st |-> b.st]
      [] e.k = "neg"  -> LET a == EvalE(P, e.e, st) IN
            IF Stopped(a.st) THEN a ELSE [v |-> IntV(e.ty, WrapTo(ZNeg(a.v.z), e.ty)), st |-> a.st]
      [] e.k = "cmp"  -> LET a == EvalE(P, e.l, st)  b == EvalE(P, e.r, a.st) IN
            IF Stopped(b.st) THEN [v |-> Unit, st |-> b.st]
            ELSE [v |-> BoolV(CmpOp(e.op, IF a.v.t = "i" THEN ZCmp(a.v.z, b.v.z)
                                           ELSE IF a.v = b.v THEN 0 ELSE 1)), st |-> b.st]
      [] e.k = "logic" -> LET a == EvalE(P, e.l, st)  b == EvalE(P, e.r, a.st) IN      \* both operands are evaluated
            IF Stopped(b.st) THEN [v |-> Unit, st |-> b.st]
            ELSE [v |-> BoolV(IF e.op = "&&" THEN a.v.v /\ b.v.v ELSE a.v.v \/ b.v.v), st |-> b.st]
      [] e.k = "not"  -> LET a == EvalE(P, e.e, st) IN IF Stopped(a.st) THEN a ELSE [v |-> BoolV(~a.v.v), st |-> a.st]
      [] e.k = "cast" -> LET a == EvalE(P, e.e, st) IN
            IF Stopped(a.st) THEN a ELSE [v |-> IntV(e.ty, WrapTo(a.v.z, e.ty)), st |-> a.st]
      [] e.k = "field" -> LET a == EvalE(P, e.e, st) IN IF Stopped(a.st) THEN a ELSE [v |-> a.v.f[e.f], st |-> a.st]
      [] e.k = "index" -> LET a == EvalE(P, e.e, st)  i == EvalE(P, e.i, a.st) IN
            IF Stopped(i.st) THEN [v |-> Unit, st |-> i.st]
            ELSE LET k == NormIdx(i.v.z, Len(a.v.e)) IN
                 IF k < 0 THEN [v |-> Unit, st |-> Panic(i.st)] ELSE [v |-> a.v.e[k + 1], st |-> i.st]
      [] e.k = "len"  -> LET a == EvalE(P, e.e, st) IN
            IF Stopped(a.st) THEN a
            ELSE [v |-> IntV([s |-> TRUE, b |-> 32], ZFromNat(NFromInt(IF a.v.t = "s" THEN Len(a.v.v) ELSE Len(a.v.e)))), st |-> a.st]
      [] e.k = "struct" -> LET r == StructFields(P, e.fs, 1, st, <<>>) IN
            [v |-> [t |-> "st", f |-> r.f], st |-> r.st]
      [] e.k = "array" -> LET r == ArrElems(P, e.es, 1, st, <<>>) IN [v |-> [t |-> "ar", e |-> r.vs], st |-> r.st]
      [] e.k = "addr" -> LET b == PlaceOf(P, e.e, st) IN
            [v |-> [t |-> "r", fr |-> b.pl.fr, p |-> b.pl.p], st |-> b.st]
      [] e.k = "call" ->
            LET f == P.funcs[e.f]
                r == EvalArgs(P, e.args, 1, st, <<>>)
            IN IF Stopped(r.st) THEN [v |-> Unit, st |-> r.st]
               ELSE LET env == [n \in {f.params[j] : j \in 1 .. Len(f.params)} |->
                                   r.vs[CHOOSE j \in 1 .. Len(f.params) : f.params[j] = n]]
                        inner == [r.st EXCEPT !.fr = Append(@, env), !.ctl = "n", !.ret = Unit]
                        after == ExecB(P, f.body, 1, inner)
                        back == [after EXCEPT !.fr = SubSeq(@, 1, Len(@) - 1),
                                              !.ctl = IF Stopped(after) THEN after.ctl ELSE "n", !.ret = Unit]
                    IN [v |-> after.ret, st |-> back]
      [] e.k = "fnlit" ->          \* function literal: captures the variables of the enclosing frame
            [v |-> [t |-> "c", ps |-> e.params, body |-> e.body, env |-> st.fr[Cur(st)]], st |-> st]
      [] e.k = "callv" ->          \* call of a function value held in a variable
            LET c == st.fr[Cur(st)][e.f]
                r == EvalArgs(P, e.args, 1, st, <<>>)
            IN IF Stopped(r.st) THEN [v |-> Unit, st |-> r.st]
               ELSE LET env == [n \in (DOMAIN c.env) \cup {c.ps[j] : j \in 1 .. Len(c.ps)} |->
                                   IF \E j \in 1 .. Len(c.ps) : c.ps[j] = n
                                   THEN r.vs[CHOOSE j \in 1 .. Len(c.ps) : c.ps[j] = n] ELSE c.env[n]]
                        inner == [r.st EXCEPT !.fr = Append(@, env), !.ctl = "n", !.ret = Unit]
                        after == ExecB(P, c.body, 1, inner)
                        back == [after EXCEPT !.fr = SubSeq(@, 1, Len(@) - 1),
                                              !.ctl = IF Stopped(after) THEN after.ctl ELSE "n", !.ret = Unit]
                    IN [v |-> after.ret, st |-> back]
      [] e.k = "none" -> [v |-> [t |-> "o", some |-> FALSE, v |-> Unit], st |-> st]
      [] e.k = "some" -> LET a == EvalE(P, e.e, st) IN          \* a value used where an optional is expected
            IF Stopped(a.st) THEN a ELSE [v |-> [t |-> "o", some |-> TRUE, v |-> a.v], st |-> a.st]
      [] e.k = "coal" -> LET a == EvalE(P, e.e, st)  d == EvalE(P, e.d, a.st) IN      \* e ?? d
            IF Stopped(d.st) THEN [v |-> Unit, st |-> d.st]
            ELSE [v |-> IF a.v.some THEN a.v.v ELSE d.v, st |-> d.st]
      [] e.k = "isnone" -> LET a == EvalE(P, e.e, st) IN        \* e == none (neg: e != none)
            IF Stopped(a.st) THEN a ELSE [v |-> BoolV(IF e.neg THEN a.v.some ELSE ~a.v.some), st |-> a.st]
      [] e.k = "catch" ->          \* result-returning call with a fallback (and an optional handler block)
            LET c == EvalE(P, e.call, st) IN
            IF Stopped(c.st) THEN c
            ELSE IF c.v.ok THEN [v |-> c.v.v, st |-> c.st]
            ELSE LET h == IF e.h = <<>> THEN c.st
                          ELSE LET s1 == [c.st EXCEPT !.fr[Cur(c.st)] = Bind(@, e.n, c.v.v)] IN ExecB(P, e.h, 1, s1)
                 IN IF h.ctl # "n" THEN [v |-> Unit, st |-> h] ELSE EvalE(P, e.fb, h)

EvalArgs(P, as, i, st, acc) == IF i > Len(as) \/ Stopped(st) THEN [vs |-> acc, st |-> st]
                               ELSE LET a == EvalE(P, as[i], st) IN EvalArgs(P, as, i + 1, a.st, Append(acc, a.v))
StructFields(P, fs, i, st, acc) ==
    IF i > Len(fs) \/ Stopped(st) THEN [f |-> [n \in {acc[j][1] : j \in 1 .. Len(acc)} |->
                                                   acc[CHOOSE j \in 1 .. Len(acc) : acc[j][1] = n][2]], st |-> st]
    ELSE LET a == EvalE(P, fs[i].e, st) IN StructFields(P, fs, i + 1, a.st, Append(acc, <<fs[i].n, a.v>>))
ArrElems(P, es, i, st, acc) == IF i > Len(es) \/ Stopped(st) THEN [vs |-> acc, st |-> st]
                               ELSE LET a == EvalE(P, es[i], st) IN ArrElems(P, es, i + 1, a.st, Append(acc, a.v))

ExecB(P, b, i, st) == IF i > Len(b) \/ st.ctl # "n" THEN st ELSE ExecB(P, b, i + 1, ExecS(P, b[i], st))

Loop(P, s, st, fuel) ==
    IF fuel = 0 THEN [st EXCEPT !.ctl = "fuel"] ELSE
    LET c == EvalE(P, s.c, st) IN
    IF Stopped(c.st) THEN c.st ELSE IF ~c.v.v THEN c.st ELSE
    LET b == ExecB(P, s.b, 1, c.st) IN
    IF b.ctl = "b" THEN [b EXCEPT !.ctl = "n"]
    ELSE IF b.ctl = "c" THEN Loop(P, s, [b EXCEPT !.ctl = "n"], fuel - 1)
    ELSE IF b.ctl # "n" THEN b ELSE Loop(P, s, b, fuel - 1)

(* for v in lo..hi : the end bound is exclusive *)
ForLoop(P, s, st, cur, hi, fuel) ==
    IF fuel = 0 THEN [st EXCEPT !.ctl = "fuel"] ELSE
    IF ZCmp(cur, hi) >= 0 THEN st ELSE
    LET s1 == [st EXCEPT !.fr[Cur(st)] = Bind(@, s.n, IntV(s.ty, cur))]
        b == ExecB(P, s.b, 1, s1) IN
    IF b.ctl = "b" THEN [b EXCEPT !.ctl = "n"]
    ELSE IF b.ctl = "c" \/ b.ctl = "n" THEN ForLoop(P, s, [b EXCEPT !.ctl = "n"], ZAdd(cur, ZFromNat(<<1>>)), hi, fuel - 1)
    ELSE b

(* for v in lo..hi:step : upward (v < hi) for a positive step, downward (v > hi) for a negative one, no iteration
   for step 0; the end bound is exclusive in both directions *)
ForStep(P, s, st, cur, hi, step, fuel) ==
    IF fuel = 0 THEN [st EXCEPT !.ctl = "fuel"] ELSE
    IF step.mag = <<>> \/ (~step.neg /\ ZCmp(cur, hi) >= 0) \/ (step.neg /\ ZCmp(cur, hi) <= 0) THEN st ELSE
    LET s1 == [st EXCEPT !.fr[Cur(st)] = Bind(@, s.n, IntV(s.ty, cur))]
        b == ExecB(P, s.b, 1, s1) IN
    IF b.ctl = "b" THEN [b EXCEPT !.ctl = "n"]
    ELSE IF b.ctl = "c" \/ b.ctl = "n" THEN ForStep(P, s, [b EXCEPT !.ctl = "n"], WrapTo(ZAdd(cur, step), s.ty), hi, step, fuel - 1)
    ELSE b

(* for v in xs / for i, v in xs : the elements the array has when the loop starts, in order; i counts from 0 *)
ForIn(P, s, st, es, j) ==
    IF j > Len(es) THEN st ELSE
    LET s1 == [st EXCEPT !.fr[Cur(st)] = Bind(IF s.i = "" THEN @ ELSE Bind(@, s.i, IntV([s |-> TRUE, b |-> 32], ZFromNat(NFromInt(j - 1)))),
                                              s.n, es[j])]
        b == ExecB(P, s.b, 1, s1) IN
    IF b.ctl = "b" THEN [b EXCEPT !.ctl = "n"]
    ELSE IF b.ctl = "c" \/ b.ctl = "n" THEN ForIn(P, s, [b EXCEPT !.ctl = "n"], es, j + 1)
    ELSE b

MatchArms(P, arms, i, v, st) ==
    IF i > Len(arms) THEN st
    ELSE IF arms[i].dflt THEN ExecB(P, arms[i].b, 1, st)
    ELSE LET pv == EvalE(P, arms[i].p, st) IN
         IF pv.v = v THEN ExecB(P, arms[i].b, 1, pv.st) ELSE MatchArms(P, arms, i + 1, v, pv.st)

PrintStr(v) == CASE v.t = "i" -> ZStr(v.z) [] v.t = "b" -> (IF v.v THEN "true" ELSE "false") [] v.t = "s" -> v.v

ExecS(P, s, st) ==
    CASE s.k = "let"    -> LET a == EvalE(P, s.e, st) IN
                           IF Stopped(a.st) THEN a.st ELSE [a.st EXCEPT !.fr[Cur(a.st)] = Bind(@, s.n, a.v)]
      [] s.k = "assign" -> LET a == EvalE(P, s.e, st)           \* right-hand side first, then the target place
                               pl == PlaceOf(P, s.lv, a.st) IN
                           IF Stopped(pl.st) THEN pl.st ELSE WritePlace(pl.st, pl.pl, a.v)
      [] s.k = "opassign" ->       \* lv op= e (also lv++ / lv--): the place is read and written once, wrapped at its type
                           LET a == EvalE(P, s.e, st)
                               pl == PlaceOf(P, s.lv, a.st) IN
                           IF Stopped(pl.st) THEN pl.st
                           ELSE LET old == ReadPlace(pl.st, pl.pl) IN
                                WritePlace(pl.st, pl.pl, IntV(s.ty, WrapTo(Arith(s.op, old.z, a.v.z), s.ty)))
      [] s.k = "print"  -> LET a == EvalE(P, s.e, st) IN
                           IF Stopped(a.st) THEN a.st ELSE [a.st EXCEPT !.out = Append(@, PrintStr(Deref(a.st, a.v)))]
      [] s.k = "expr"   -> EvalE(P, s.e, st).st
      [] s.k = "ret"    -> LET a == EvalE(P, s.e, st) IN
                           IF Stopped(a.st) THEN a.st ELSE [a.st EXCEPT !.ctl = "r", !.ret = a.v]
      [] s.k = "retok"  -> LET a == EvalE(P, s.e, st) IN
                           IF Stopped(a.st) THEN a.st ELSE [a.st EXCEPT !.ctl = "r", !.ret = [t |-> "rs", ok |-> TRUE, v |-> a.v]]
      [] s.k = "reterr" -> LET a == EvalE(P, s.e, st) IN
                           IF Stopped(a.st) THEN a.st ELSE [a.st EXCEPT !.ctl = "r", !.ret = [t |-> "rs", ok |-> FALSE, v |-> a.v]]
      [] s.k = "retvoid" -> [st EXCEPT !.ctl = "r"]
      [] s.k = "if"     -> LET c == EvalE(P, s.c, st) IN
                           IF Stopped(c.st) THEN c.st ELSE IF c.v.v THEN ExecB(P, s.t, 1, c.st) ELSE ExecB(P, s.e, 1, c.st)
      [] s.k = "while"  -> Loop(P, s, st, 200)
      [] s.k = "for"    -> LET lo == EvalE(P, s.lo, st)  hi == EvalE(P, s.hi, lo.st) IN
                           IF Stopped(hi.st) THEN hi.st ELSE ForLoop(P, s, hi.st, lo.v.z, hi.v.z, 200)
      [] s.k = "forstep" -> LET lo == EvalE(P, s.lo, st)  hi == EvalE(P, s.hi, lo.st)  sp == EvalE(P, s.st, hi.st) IN
                           IF Stopped(sp.st) THEN sp.st ELSE ForStep(P, s, sp.st, lo.v.z, hi.v.z, sp.v.z, 200)
      [] s.k = "forin"  -> LET a == EvalE(P, s.e, st) IN
                           IF Stopped(a.st) THEN a.st ELSE ForIn(P, s, a.st, a.v.e, 1)
      [] s.k = "match"  -> LET v == EvalE(P, s.e, st) IN
                           IF Stopped(v.st) THEN v.st ELSE MatchArms(P, s.arms, 1, v.v, v.st)
      [] s.k = "append" -> LET a == EvalE(P, s.e, st)  pl == PlaceOf(P, s.lv, a.st) IN
                           IF Stopped(pl.st) THEN pl.st
                           ELSE LET old == ReadPlace(pl.st, pl.pl) IN WritePlace(pl.st, pl.pl, [old EXCEPT !.e = Append(@, a.v)])
      [] s.k = "break"  -> [st EXCEPT !.ctl = "b"]
      [] s.k = "continue" -> [st EXCEPT !.ctl = "c"]
      [] s.k = "block"  -> ExecB(P, s.b, 1, st)

S0 == [fr |-> << <<>> >>, out |-> <<>>, ctl |-> "n", ret |-> Unit]
Run(P) == LET r == ExecB(P, P.main, 1, S0)
          IN [out |-> r.out, halt |-> IF r.ctl = "panic" THEN "panic" ELSE IF r.ctl = "fuel" THEN "fuel" ELSE "exit0"]
=============================================================================
