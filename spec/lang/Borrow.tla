------------------------------- MODULE Borrow -------------------------------
(* C07 — references obey aliasing-xor-mutation and never outlive their referent.

   A program is a sequence of events over the places  a, p.X, p.Y, arr[0], arr[1]  (int-valued) and
   the references r1, r2:
     bs(r,pl)  let r: &i32  = &pl;          bm(r,pl)  let r: &'i32 = &'pl;
     bc(r,pl)  let r: &i32  = id(&pl);      (reference obtained from a call that returns its argument)
     rb(r,s)   let r: &i32  = s;            (copy of a shared reference)
     use(r)    print through r              wt(r)     write through r (r mutable)
     rd(pl)    print pl                     wr(pl)    pl = <fresh value>
     tm(pl)    mutI(&'pl)   temporary mutable borrow for the duration of a call (a write of pl)
     ts(pl)    readI(&pl)   temporary shared borrow (a read of pl)
     cdef(pl)  let f := fn() -> i32 { return pl; };   creating the function literal accesses nothing; the literal sees
               the variable itself: the call  ccall  (print f(), appended at the end of the program) reads the value
               the place has at that time
     open / close                            a nested block { ... }: references declared inside die at close
     loop / endloop                          a `while` body executed twice by the judgment
   The judgment is the property itself in its forward form: an access that conflicts with the loan
   of a reference r only TAINTS r; a later use of a tainted reference (use, wt, rb-from) is what makes
   the program illegal -- "while the reference is still used later the place cannot be accessed".
     conflict(loan, access on q) == Overlap(loan.place, q) /\ (loan.mut \/ access is a write or &' borrow)
   Two different elements of one array: the documented rule treats them as overlapping, the
   property does not promise either outcome, so such conflicts yield verdict "either".
   Run also computes the values, so for legal programs the printed lines are prescribed
   (write-through visibility in both directions). *)
EXTENDS Integers, Sequences, FiniteSets, TLC, Json

Places == {"a", "p.X", "p.Y", "arr[0]", "arr[1]"}
Refs == {"r1", "r2"}
CONSTANTS MaxLen, UseBlocks, UseLoops, UseCalls

Base(pl) == CASE pl = "a" -> "a" [] pl \in {"p.X", "p.Y"} -> "p" [] OTHER -> "arr"
(* 2 = same place, 1 = different elements of the same array (conservatively overlapping), 0 = disjoint *)
Overlap(x, y) == IF x = y THEN 2 ELSE IF Base(x) = "arr" /\ Base(y) = "arr" THEN 1 ELSE 0

NoLoan == [on |-> FALSE, pl |-> "a", mut |-> FALSE, taint |-> 0, depth |-> 0, via |-> "none"]
(* `via` (how the reference was obtained) does not enter the judgment; it keeps loans obtained in
   different ways apart in the explored state graph so that each way gets its own programs *)
InitVal == [pl \in Places |-> CASE pl = "a" -> 1 [] pl = "p.X" -> 2 [] pl = "p.Y" -> 3 [] pl = "arr[0]" -> 5
                                   [] OTHER -> 6]
S0 == [loan |-> [r \in Refs |-> NoLoan], val |-> InitVal, out |-> <<>>, bad |-> 0, depth |-> 0, n |-> 0, clo |-> "", cloAfter |-> FALSE]

(* taint levels / verdict levels: 0 none, 1 only by the array-element rule, 2 definite *)
Max(x, y) == IF x >= y THEN x ELSE y
(* an access to place q (write = TRUE for writes and mutable borrows) by `self` ("" for direct accesses) *)
Access(s, q, write, self) ==
    [s EXCEPT !.loan = [r \in Refs |->
        LET l == s.loan[r] IN
        IF l.on /\ r # self /\ Overlap(l.pl, q) > 0 /\ (l.mut \/ write)
        THEN [l EXCEPT !.taint = Max(@, Overlap(l.pl, q))] ELSE l]]
(* using reference r: illegal if its loan was tainted; it is itself an access to its place *)
UseOf(s, r, write) == LET s1 == [s EXCEPT !.bad = Max(@, s.loan[r].taint)]
                      IN Access(s1, s.loan[r].pl, write, r)

Step(s0, e) ==
    LET s == [s0 EXCEPT !.n = @ + 1] IN
    CASE e.k \in {"bs", "bc"} ->
            LET s1 == Access(s, e.pl, FALSE, "")
            IN [s1 EXCEPT !.loan[e.r] = [on |-> TRUE, pl |-> e.pl, mut |-> FALSE, taint |-> 0, depth |-> s.depth,
                                          via |-> e.k]]
      [] e.k = "bm" ->
            LET s1 == Access(s, e.pl, TRUE, "")
            IN [s1 EXCEPT !.loan[e.r] = [on |-> TRUE, pl |-> e.pl, mut |-> TRUE, taint |-> 0, depth |-> s.depth,
                                          via |-> "bm"]]
      [] e.k = "rb" ->
            LET s1 == UseOf(s, e.s, FALSE)
            IN [s1 EXCEPT !.loan[e.r] = [on |-> TRUE, pl |-> s.loan[e.s].pl, mut |-> FALSE, taint |-> 0,
                                          depth |-> s.depth, via |-> "rb"]]
      [] e.k = "use" -> LET s1 == UseOf(s, e.r, FALSE) IN [s1 EXCEPT !.out = Append(@, s.val[s.loan[e.r].pl])]
      [] e.k = "wt"  -> LET s1 == UseOf(s, e.r, TRUE) IN [s1 EXCEPT !.val[s.loan[e.r].pl] = e.v]
      [] e.k = "rd"  -> LET s1 == Access(s, e.pl, FALSE, "") IN [s1 EXCEPT !.out = Append(@, s.val[e.pl])]
      [] e.k = "wr"  -> LET s1 == Access(s, e.pl, TRUE, "") IN [s1 EXCEPT !.val[e.pl] = e.v]
      [] e.k = "tm"  -> LET s1 == Access(s, e.pl, TRUE, "") IN [s1 EXCEPT !.val[e.pl] = 5]      \* mutI stores 5
      [] e.k = "ts"  -> LET s1 == Access(s, e.pl, FALSE, "") IN [s1 EXCEPT !.out = Append(@, s.val[e.pl])]
      [] e.k = "cdef" -> [s EXCEPT !.clo = e.pl,         \* let f := fn() -> i32 { return pl; };  creating it accesses nothing
                                   !.cloAfter = \E r \in Refs : s.loan[r].on /\ Overlap(s.loan[r].pl, e.pl) = 2]
                         \* (cloAfter: the literal was created while a reference to that place existed -- no part of the
                         \*  judgment; it keeps the two orders of borrowing and creating apart in the explored graph)
      [] e.k = "ccall" -> IF s.clo = "" THEN s            \* print f():  a read of the captured place, at the time of the call
                          ELSE LET s1 == Access(s, s.clo, FALSE, "") IN [s1 EXCEPT !.out = Append(@, s.val[s.clo])]
      [] e.k = "open" -> [s EXCEPT !.depth = @ + 1]
      [] e.k = "close" -> [s EXCEPT !.depth = @ - 1,
                                    !.loan = [r \in Refs |-> IF s.loan[r].on /\ s.loan[r].depth = s.depth
                                                              THEN NoLoan ELSE s.loan[r]]]
      [] OTHER -> s
RECURSIVE RunFrom(_, _, _)
RunFrom(s, es, i) == IF i > Len(es) THEN s ELSE RunFrom(Step(s, es[i]), es, i + 1)

(* loops: the body between loop/endloop runs twice (a `while` driven by a counter);
   flatten the event list first *)
RECURSIVE Flatten(_, _, _)
Flatten(es, i, acc) ==
    IF i > Len(es) THEN acc
    ELSE IF es[i].k = "loop"
         THEN LET ends == {x \in i + 1 .. Len(es) : es[x].k = "endloop"}
                  j == IF ends = {} THEN Len(es) + 1 ELSE CHOOSE x \in ends : \A y \in ends : x <= y
                  body == SubSeq(es, i + 1, j - 1)
              IN Flatten(es, j + 1, acc \o <<[k |-> "open"]>> \o body \o <<[k |-> "close"]>>
                                        \o <<[k |-> "open"]>> \o body \o <<[k |-> "close"]>>)
         ELSE Flatten(es, i + 1, Append(acc, es[i]))
Run(es) == RunFrom(S0, Flatten(es, 1, <<>>), 1)

(* ---- well-formedness of an event appended to a program (syntax / typing, not borrowing) ---- *)
Declared(s, r) == s.loan[r].on
InLoop(es) == \E i \in 1 .. Len(es) : es[i].k = "loop" /\ \A j \in i + 1 .. Len(es) : es[j].k # "endloop"
OpenBlocks(es) == Cardinality({i \in 1 .. Len(es) : es[i].k = "open"}) - Cardinality({i \in 1 .. Len(es) : es[i].k = "close"})
EverDeclared(es, r) == \E i \in 1 .. Len(es) : es[i].k \in {"bs", "bm", "bc", "rb"} /\ es[i].r = r
Events(es) ==
    LET s == RunFrom(S0, es, 1)          \* well-formedness is judged on the unflattened text
        borrowKinds == IF UseCalls THEN {"bs", "bm", "bc"} ELSE {"bs", "bm"}
        tempKinds == IF UseCalls THEN {"tm", "ts"} ELSE {}
    IN  {[k |-> b, r |-> r, pl |-> pl] : b \in borrowKinds, r \in {x \in Refs : ~EverDeclared(es, x)}, pl \in Places}
        \cup {[k |-> "rb", r |-> r, s |-> q] : r \in {x \in Refs : ~EverDeclared(es, x)},
                                               q \in {x \in Refs : Declared(s, x) /\ ~s.loan[x].mut}}
        \cup {[k |-> "use", r |-> r] : r \in {x \in Refs : Declared(s, x)}}
        \cup {[k |-> "wt", r |-> r, v |-> 10 * (Len(es) + 1)] : r \in {x \in Refs : Declared(s, x) /\ s.loan[x].mut}}
        \cup {[k |-> "rd", pl |-> pl] : pl \in Places}
        \cup {[k |-> "wr", pl |-> pl, v |-> 10 * (Len(es) + 1)] : pl \in Places}
        \cup {[k |-> t, pl |-> pl] : t \in tempKinds, pl \in Places}
        \cup (IF UseCalls /\ OpenBlocks(es) = 0 /\ ~InLoop(es) /\ s.clo = "" THEN {[k |-> "cdef", pl |-> pl] : pl \in {"a", "p.X"}} ELSE {})
        \cup (IF UseBlocks /\ OpenBlocks(es) = 0 /\ ~InLoop(es) THEN {[k |-> "open"]} ELSE {})
        \cup (IF UseBlocks /\ OpenBlocks(es) = 1 /\ ~InLoop(es) THEN {[k |-> "close"]} ELSE {})
        \cup (IF UseLoops /\ OpenBlocks(es) = 0 /\ ~InLoop(es) THEN {[k |-> "loop"]} ELSE {})
        \cup (IF UseLoops /\ InLoop(es) /\ es[Len(es)].k # "loop" THEN {[k |-> "endloop"]} ELSE {})
(* a reference declared inside a loop body would be re-declared by the second pass: keep declarations
   out of loop bodies *)
OKInLoop(es, e) == ~InLoop(es) \/ e.k \notin {"bs", "bm", "bc", "rb"}
Complete(es) == OpenBlocks(es) = 0 /\ ~InLoop(es)

VARIABLE hist
Init == hist = <<>>
Next == /\ Len(hist) < MaxLen
        /\ \E e \in Events(hist) : OKInLoop(hist, e) /\ hist' = Append(hist, e)
Spec == Init /\ [][Next]_hist

(* the abstract state that decides everything that can still happen *)
Abs(es) == LET s == RunFrom(S0, es, 1) IN <<s.loan, s.bad, s.clo, s.cloAfter, OpenBlocks(es), InLoop(es),
                                            IF InLoop(es) THEN es ELSE <<>>, {r \in Refs : EverDeclared(es, r)}>>
View == Abs(hist)

Verdict(es) == LET b == Run(es).bad IN IF b = 2 THEN "illegal" ELSE IF b = 1 THEN "either" ELSE "legal"
(* epilogue: use every reference that is still in scope, making every remaining loan live *)
RECURSIVE SetToSeq(_)
SetToSeq(X) == IF X = {} THEN <<>> ELSE LET x == CHOOSE y \in X : TRUE IN <<x>> \o SetToSeq(X \ {x})
Epilogue(es) == LET s == Run(es) live == SetToSeq({r \in Refs : s.loan[r].on})
                IN [i \in 1 .. Len(live) |-> [k |-> "use", r |-> live[i]]]
(* a function literal created by the program is called once at its very end *)
WithCall(es) == IF \E i \in 1 .. Len(es) : es[i].k = "cdef" THEN Append(es, [k |-> "ccall"]) ELSE es
CaseOf(es0) == LET es == WithCall(es0) IN [events |-> es, verdict |-> Verdict(es), out |-> Run(es).out]
EmitAC == IF Complete(hist')
          THEN /\ PrintT("@@CASE " \o ToJson(CaseOf(hist')))
               /\ (Epilogue(hist') = <<>> \/ PrintT("@@CASE " \o ToJson(CaseOf(hist' \o Epilogue(hist')))))
          ELSE TRUE

(* sanity of the judgment itself *)
TaintOnlyFromConflict == Run(hist).bad \in {0, 1, 2}
NoUseNoIllegal == (\A i \in 1 .. Len(hist) : hist[i].k \notin {"use", "wt", "rb"}) => Run(hist).bad = 0
=============================================================================
