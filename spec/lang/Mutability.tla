----------------------------- MODULE Mutability -----------------------------
(* C06 — immutable bindings cannot be modified.

   A case is (binding kind, access path, mutation form, syntactic context).  The rule:
     Immutable(root . path) == RootImmutable(root)      -- the whole value reached from the root:
        const (local or module level), the index variable of a two-variable for loop, a catch error
        variable, and everything reached through an immutable reference &T (parameter, receiver, local);
     Mutates(form)          == every one of =, compound assignment, ++, --, taking &', passing to a
                               &' parameter, calling a &'-receiver method.
     MustReject == Immutable(place) /\ Mutates(form).
   Applicability (which path exists for which root type, which form exists for which place type) is
   stated here too, so that the enumerated product contains exactly the well-formed cases.  Every
   case has a twin with a mutable root (const -> let, &T -> &'T, ...) that must be accepted: the
   driver uses it as the control that isolates the mutability rule from everything else. *)
EXTENDS Integers, Sequences, FiniteSets, TLC, Json

(* for_index: for x, v in <dynamic array>;  _blank: the second variable is the placeholder `_`;  _str: the loop
   ranges over a string -- all of them two-variable for loops (over a fixed-size array the front end has none) *)
Kinds == {"const_int", "const_struct", "const_arr", "gconst_int", "gconst_struct",
          "for_index", "for_index_blank", "for_index_str",
          "catch_err", "ref_param", "ref_param_int", "ref_recv", "ref_local"}
RootImmutable(k) == k \in Kinds          \* every kind listed is an immutable root (its twin is not)

BaseType(k) == CASE k \in {"const_int", "gconst_int", "for_index", "for_index_blank", "for_index_str", "ref_param_int"} -> "int"
                 [] k \in {"const_struct", "gconst_struct", "ref_param", "ref_recv", "ref_local"} -> "P"
                 [] k = "const_arr" -> "arr"
                 [] k = "catch_err" -> "str"

Paths == {"id", "paren", "fld", "chain", "arrfld", "inner", "parenfld", "idx"}
PathOK(base, p) == CASE base \in {"int", "str"} -> p \in {"id", "paren"}
                     [] base = "P" -> p \in {"id", "paren", "fld", "chain", "arrfld", "inner", "parenfld"}
                     [] base = "arr" -> p \in {"id", "paren", "idx"}
PlaceType(base, p) == CASE p \in {"id", "paren"} -> base
                        [] p \in {"fld", "chain", "arrfld", "parenfld", "idx"} -> "int"
                        [] p = "inner" -> "Q"

Forms == {"assign", "compound", "inc", "dec", "borrow", "pass", "method", "fnslot"}
(* fnslot: the place is handed to a function VALUE whose static type promises &T while the function bound to it
   takes &'T and writes through it *)
Mutates(f) == f \in Forms
FormOK(t, f) == CASE t = "int" -> f \in {"assign", "compound", "inc", "dec", "borrow", "pass", "fnslot"}
                  [] t \in {"P", "Q"} -> f \in {"assign", "borrow", "pass", "method", "fnslot"}
                  [] t = "arr" -> f \in {"assign", "borrow"}
                  [] t = "str" -> f \in {"assign", "borrow", "pass"}

Contexts == {"plain", "if", "loop", "match", "closure", "method"}
CtxOK(k, c) == IF k = "ref_recv" THEN c \in {"method", "if", "loop", "match", "closure"}   \* always inside a method
               ELSE TRUE

Immutable(k, p) == RootImmutable(k)
MustReject(k, p, f) == Immutable(k, p) /\ Mutates(f)

VARIABLES k, p, f, c
vars == <<k, p, f, c>>
Init == /\ k \in Kinds /\ p \in Paths /\ f \in Forms /\ c \in Contexts
        /\ PathOK(BaseType(k), p) /\ FormOK(PlaceType(BaseType(k), p), f) /\ CtxOK(k, c)
Next == UNCHANGED vars
Spec == Init /\ [][Next]_vars

Case == [kind |-> k, path |-> p, form |-> f, ctx |-> c, base |-> BaseType(k),
         placeType |-> PlaceType(BaseType(k), p), mustReject |-> MustReject(k, p, f),
         key |-> "C06|" \o k \o "|" \o p \o "|" \o f \o "|" \o c]
Emit == PrintT("@@CASE " \o ToJson(Case))
AllRejected == MustReject(k, p, f)        \* sanity: the enumerated space is the must-reject space
=============================================================================
