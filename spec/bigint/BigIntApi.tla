------------------------------ MODULE BigIntApi ------------------------------
(* C16 — the exported 128/256-bit integer operations of runtime/core/bigint.c as a logged
   sequential library. Every record of trace.ndjson is one real call (operands and result as
   N-bit patterns). The specification states what the result
   must be: the mathematically correct value reduced modulo 2^N (two's complement for the signed
   types); division and remainder are CHECKED (q*b + r = a, |r| < |b|, sign of r follows a),
   decimal conversion is checked against BigNum's own conversion. *)
EXTENDS BigNum, TLC, Json

Trace == ndJsonDeserialize("trace.ndjson")
VARIABLE l
Ev == Trace[l]

Bits(ty)   == IF ty \in {"i128", "u128"} THEN 128 ELSE 256
Signed(ty) == ty \in {"i128", "i256"}
U(h) == h          \* the pattern as a natural: the driver regroups the logged hex nibbles into
                   \* BigNum digits (a change of representation only)
Val(h, ty) == Decode(U(h), Bits(ty), Signed(ty))     \* the integer it denotes
Pat(x, ty) == Encode(x, Bits(ty))                    \* pattern of an integer, mod 2^N

MinPat(ty) == NPow2(Bits(ty) - 1)
AllOnes(ty) == NSub(NPow2(Bits(ty)), <<1>>)

OkArith(e) ==
    LET a == Val(e.a, e.ty)  b == Val(e.b, e.ty)
    IN CASE e.op = "add" -> U(e.r) = Pat(ZAdd(a, b), e.ty)
         [] e.op = "sub" -> U(e.r) = Pat(ZSub(a, b), e.ty)
         [] e.op = "mul" -> U(e.r) = Pat(ZMul(a, b), e.ty)
         [] e.op = "and" -> U(e.r) = NBitOp(U(e.a), U(e.b), "and")
         [] e.op = "or"  -> U(e.r) = NBitOp(U(e.a), U(e.b), "or")
         [] e.op = "xor" -> U(e.r) = NBitOp(U(e.a), U(e.b), "xor")

(* b # 0. The one overflowing case MIN / -1 wraps to MIN with remainder 0. *)
OkDivMod(e) ==
    LET a == Val(e.a, e.ty)  b == Val(e.b, e.ty)
        q == Val(e.q, e.ty)  r == Val(e.r, e.ty)
    IN IF Signed(e.ty) /\ U(e.a) = MinPat(e.ty) /\ U(e.b) = AllOnes(e.ty)
       THEN U(e.q) = MinPat(e.ty) /\ U(e.r) = <<>>
       ELSE DivModOK(a, b, q, r)

OkCmp(e) ==
    LET c == ZCmp(Val(e.a, e.ty), Val(e.b, e.ty))
    IN e.eq = (c = 0) /\ e.lt = (c < 0) /\ e.gt = (c > 0)

OkNot(e) == U(e.r) = NSub(AllOnes(e.ty), U(e.a))

(* shl: a * 2^n mod 2^N; shr: floor(a / 2^n) (arithmetic for the signed types); 0 <= n *)
FloorShr(x, n) == IF ~x.neg THEN Z(FALSE, NShr(x.mag, n))
                  ELSE LET q == NShr(x.mag, n)
                       IN IF NShl(q, n) = x.mag THEN Z(TRUE, q) ELSE Z(TRUE, NAdd(q, <<1>>))
OkShift(e) ==
    LET a == Val(e.a, e.ty)
    IN CASE e.op = "shl" -> U(e.r) = NModPow2(NShl(U(e.a), e.n), Bits(e.ty))
         [] e.op = "shr" -> U(e.r) = Pat(FloorShr(a, e.n), e.ty)

(* pow with a small non-negative exponent e.e (TLC integer) *)
OkPow(e) == U(e.r) = NPowMod2(U(e.a), e.e, Bits(e.ty))

(* conversions with 64-bit integers: v / r are 16 nibbles *)
OkFrom64(e) == U(e.r) = Pat(Decode(U(e.v), 64, Signed(e.ty)), e.ty)
OkTo64(e)   == U(e.r) = NModPow2(U(e.a), 64)

(* decimal text: s = [neg, digits] *)
OkToStr(e)   == LET x == Val(e.a, e.ty) IN e.neg = x.neg /\ e.digits = NToDec(x.mag)
OkFromStr(e) == U(e.r) = Pat(Z(e.neg, NFromDec(e.digits)), e.ty)

Ok(e) == CASE e.op \in {"add", "sub", "mul", "and", "or", "xor"} -> OkArith(e)
           [] e.op = "divmod" -> OkDivMod(e)
           [] e.op = "cmp" -> OkCmp(e)
           [] e.op = "not" -> OkNot(e)
           [] e.op \in {"shl", "shr"} -> OkShift(e)
           [] e.op = "pow" -> OkPow(e)
           [] e.op = "from64" -> OkFrom64(e)
           [] e.op = "to64" -> OkTo64(e)
           [] e.op = "tostr" -> OkToStr(e)
           [] e.op = "fromstr" -> OkFromStr(e)

Init == l = 1
Next == l <= Len(Trace) /\ Ok(Ev) /\ l' = l + 1
Spec == Init /\ [][Next]_l
TraceAccepted == TLCGet("stats").diameter - 1 = Len(Trace)
=============================================================================
