SPECIFICATION Spec
CONSTANTS
  K = 2
  Classes = {"z", "one", "msb", "msbm1", "maxm1", "max"}
  BSide = "all"
INVARIANT Emit
CHECK_DEADLOCK FALSE
