------------------------------ MODULE LimbArith ------------------------------
(* The limb algorithms of runtime/core/bigint.c transcribed at a reduced limb width (C16, design level).
   A number is K limbs of W bits, little endian.  bigint.c exists in two configurations (64-bit limbs with a
   128-bit accumulator, 32-bit limbs with a 64-bit accumulator); the algorithms are the same text, so every
   carry / borrow / shift interaction between neighbouring limbs that can occur there occurs here at W = 2 and
   K = 2, 3, 4, where TLC checks ALL operand pairs:

     Add    ripple carry                      Sub   ripple borrow (incl. the case b[i] + borrow wraps to 0)
     Neg    ~v + 1 with its own carry chain   Mul   schoolbook, truncated to K limbs
     DivMod shift-subtract, one bit at a time, on top of Sub / Cmp / shifts by one
     signed mul / div / mod: magnitudes, then negation by the sign rule (quotient truncates, remainder takes the
     dividend's sign)

   Each is checked against arithmetic on integers modulo B^K.  The full-width behaviour of the real functions is
   validated call by call against BigIntApi; this module is why the limb boundaries in BigPatterns matter. *)
EXTENDS Integers, Sequences, TLC

CONSTANTS W, K
B == 2 ^ W
M == B ^ K
Limbs == [1 .. K -> 0 .. B - 1]

RECURSIVE ValFrom(_, _)
ValFrom(x, i) == IF i > K THEN 0 ELSE x[i] * B ^ (i - 1) + ValFrom(x, i + 1)
Val(x) == ValFrom(x, 1)
SVal(x) == IF x[K] >= B \div 2 THEN Val(x) - M ELSE Val(x)      \* two's complement reading
Mod(n, m) == ((n % m) + m) % m
Zero == [i \in 1 .. K |-> 0]

(* ferret_add_limbs *)
RECURSIVE AddFrom(_, _, _, _)
AddFrom(a, b, i, c) == IF i > K THEN <<>>
                       ELSE LET s == a[i] + b[i] + c IN <<s % B>> \o AddFrom(a, b, i + 1, s \div B)
Add(a, b) == AddFrom(a, b, 1, 0)

(* ferret_sub_limbs: bi = b[i] + borrow wraps at the limb width; wrapped keeps the borrow alive *)
RECURSIVE SubFrom(_, _, _, _)
SubFrom(a, b, i, bor) ==
    IF i > K THEN <<>>
    ELSE LET bi == (b[i] + bor) % B
             wrapped == bor # 0 /\ bi = 0
             nb == IF wrapped \/ a[i] < bi THEN 1 ELSE 0
         IN <<Mod(a[i] - bi, B)>> \o SubFrom(a, b, i + 1, nb)
Sub(a, b) == SubFrom(a, b, 1, 0)

(* ferret_negate_limbs *)
RECURSIVE NegFrom(_, _, _)
NegFrom(v, i, c) == IF i > K THEN <<>>
                    ELSE LET inv == B - 1 - v[i]  s == (inv + c) % B
                         IN <<s>> \o NegFrom(v, i + 1, IF s < inv THEN 1 ELSE 0)
Neg(v) == NegFrom(v, 1, 1)
IsNeg(v) == v[K] >= B \div 2
Abs(v) == IF IsNeg(v) THEN Neg(v) ELSE v

(* ferret_mul_limbs: out[i+j] accumulates a[i]*b[j] with a carry that is dropped at limb K *)
RECURSIVE MulRow(_, _, _, _, _, _)
MulRow(a, b, out, i, j, carry) ==
    IF j > K - i + 1 THEN out
    ELSE LET s == a[i] * b[j] + out[i + j - 1] + carry
         IN MulRow(a, b, [out EXCEPT ![i + j - 1] = s % B], i, j + 1, s \div B)
RECURSIVE MulRows(_, _, _, _)
MulRows(a, b, out, i) == IF i > K THEN out ELSE MulRows(a, b, MulRow(a, b, out, i, 1, 0), i + 1)
Mul(a, b) == MulRows(a, b, Zero, 1)

(* ferret_cmp_u_limbs, shift left by one with the carry running up the limbs, bit access *)
RECURSIVE CmpFrom(_, _, _)
CmpFrom(a, b, i) == IF i = 0 THEN 0 ELSE IF a[i] > b[i] THEN 1 ELSE IF a[i] < b[i] THEN -1 ELSE CmpFrom(a, b, i - 1)
Cmp(a, b) == CmpFrom(a, b, K)
RECURSIVE Shl1From(_, _, _)
Shl1From(r, i, c) == IF i > K THEN <<>>
                     ELSE <<((r[i] * 2) % B) + c>> \o Shl1From(r, i + 1, r[i] \div (B \div 2))
Shl1(r) == Shl1From(r, 1, 0)
Bit(v, bit) == (v[bit \div W + 1] \div 2 ^ (bit % W)) % 2
SetBit(v, bit) == [v EXCEPT ![bit \div W + 1] = @ + 2 ^ (bit % W)]      \* the bit is clear when it is set

(* ferret_div_mod_u_limbs *)
RECURSIVE DivLoop(_, _, _, _, _)
DivLoop(n, d, q, r, bit) ==
    IF bit < 0 THEN [q |-> q, r |-> r]
    ELSE LET r1 == Shl1(r)
             r2 == IF Bit(n, bit) = 1 THEN [r1 EXCEPT ![1] = @ + 1 - (@ % 2)] ELSE r1      \* rem[0] |= 1
         IN IF Cmp(r2, d) >= 0 THEN DivLoop(n, d, SetBit(q, bit), Sub(r2, d), bit - 1)
            ELSE DivLoop(n, d, q, r2, bit - 1)
DivModU(n, d) == DivLoop(n, d, Zero, Zero, K * W - 1)

(* the signed entry points *)
SMul(a, b) == LET m == Mul(Abs(a), Abs(b)) IN IF IsNeg(a) # IsNeg(b) THEN Neg(m) ELSE m
SDiv(a, b) == LET q == DivModU(Abs(a), Abs(b)).q IN IF IsNeg(a) # IsNeg(b) THEN Neg(q) ELSE q
SMod(a, b) == LET r == DivModU(Abs(a), Abs(b)).r IN IF IsNeg(a) THEN Neg(r) ELSE r

(* truncating division on integers *)
TDiv(x, y) == IF (x < 0) = (y < 0) THEN (IF x < 0 THEN (0 - x) \div (0 - y) ELSE x \div y)
              ELSE 0 - ((IF x < 0 THEN 0 - x ELSE x) \div (IF y < 0 THEN 0 - y ELSE y))
TRem(x, y) == x - y * TDiv(x, y)

VARIABLES a, b
Init == a \in Limbs /\ b \in Limbs
Next == UNCHANGED <<a, b>>
Spec == Init /\ [][Next]_<<a, b>>

AddOK == Val(Add(a, b)) = (Val(a) + Val(b)) % M
SubOK == Val(Sub(a, b)) = Mod(Val(a) - Val(b), M)
NegOK == Val(Neg(a)) = Mod(0 - Val(a), M)
MulOK == Val(Mul(a, b)) = (Val(a) * Val(b)) % M
DivOK == Val(b) # 0 => LET d == DivModU(a, b) IN Val(d.q) * Val(b) + Val(d.r) = Val(a) /\ Val(d.r) < Val(b)
SMulOK == Val(SMul(a, b)) = Mod(SVal(a) * SVal(b), M)
SDivOK == Val(b) # 0 => Val(SDiv(a, b)) = Mod(TDiv(SVal(a), SVal(b)), M)          \* MIN / -1 wraps to MIN
SModOK == Val(b) # 0 => Val(SMod(a, b)) = Mod(TRem(SVal(a), SVal(b)), M)
=============================================================================
