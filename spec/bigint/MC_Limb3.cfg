SPECIFICATION Spec
CONSTANTS
  W = 2
  K = 3
INVARIANTS AddOK SubOK NegOK MulOK DivOK SMulOK SDivOK SModOK
CHECK_DEADLOCK FALSE
