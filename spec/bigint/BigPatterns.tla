----------------------------- MODULE BigPatterns -----------------------------
(* Operand patterns for C16: every limb of an operand is drawn from six boundary classes
   (0, 1, MSB, MSB-1, MAX-1, MAX); the driver instantiates a class with the concrete 64-bit limb.
   TLC enumerates all K-limb operands (K = 2 for 128 bit, 4 for 256 bit) and all pairs for K = 2;
   for K = 4 the pairs are (a, b) with b ranging over a fixed cover chosen by the class of each
   limb position, which keeps the product finite but dense around limb boundaries. *)
EXTENDS Integers, Sequences, TLC, Json
CONSTANTS K, Classes, BSide
VARIABLES a, b
Ops(k) == [1 .. k -> Classes]
Init == a \in Ops(K) /\ b \in (IF BSide = "all" THEN Ops(K) ELSE {f \in Ops(K) : \A i \in 2 .. K : f[i] \in {"z", "max"} })
Next == UNCHANGED <<a, b>>
Spec == Init /\ [][Next]_<<a, b>>
Emit == PrintT("@@CASE " \o ToJson([a |-> a, b |-> b]))
=============================================================================
