SPECIFICATION Spec
CONSTANTS
  K = 4
  Classes = {"z", "one", "msb", "max"}
  BSide = "cover"
INVARIANT Emit
CHECK_DEADLOCK FALSE
