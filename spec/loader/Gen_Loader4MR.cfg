SPECIFICATION Spec
CONSTANTS
  UserSeq <- U4
  Entry = "p/m1"
  G = "global"
  MaxLits = 0
  Ordered = FALSE
  AllowMissing = TRUE
  DiagChoices = {0}
  Rounds = 3
INVARIANTS Acyclic CycleRejected DagBuilds ParsedOnce TopoOK EmitTerminal
CHECK_DEADLOCK FALSE
