SPECIFICATION Spec
CONSTANTS
  UserSeq <- U3
  Entry = "p/m1"
  G = "global"
  MaxLits = 1
  Ordered = FALSE
  AllowMissing = FALSE
  DiagChoices = {0, 4}
  Rounds = 3
INVARIANTS Acyclic CycleRejected DagBuilds ParsedOnce TopoOK EmitTerminal
CHECK_DEADLOCK FALSE
