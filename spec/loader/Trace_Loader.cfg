SPECIFICATION TraceSpec
CONSTANTS
  UserSeq <- UT
  Entry = "p/m1"
  G = "global"
  MaxLits = 3
  Ordered = FALSE
  AllowMissing = FALSE
INVARIANTS Acyclic CycleRejected DagBuilds ParsedOnce TopoOK
POSTCONDITION TraceAccepted
CHECK_DEADLOCK FALSE
