---------------------------- MODULE ModuleLoader ----------------------------
(* Concurrent module discovery / parsing of the Ferret pipeline (internal/pipeline/parse.go,
   internal/context_v2/context.go, internal/utils/literals.go), one action per critical section:

     main:      Spawn(G) ; Spawn(Entry) ; wg.Wait ; ComputeTopologicalOrder
     module m:  ParseBegin (AddModule, read file, lex, parse with one GenLit step per function
                literal) ; Dep(m,G) ; Dep(m,d) for every import in order (AddDependency: cycle
                search + insertion under ctx.mu, ONE atomic step) ; Spawn(m,d) for every import in
                order (LoadOrStore on `seen`, wg.Add, go) ; Done (wg.Done)

   The project (import lists, number of function literals per module, missing files) is chosen in
   Init, so one TLC run covers every project over the constant universe and every interleaving.
   `hist` records the gate label of every step (it is the schedule that the real binary is forced
   through) and is excluded from the VIEW.

   C15: Acyclic, CycleRejected, DagBuilds, ParsedOnce, TopoOK, (deadlock freedom / Termination).
   C14: the emitted terminal states are grouped per project by the driver: a project whose terminal
        states disagree on Output is schedule-dependent by design.  *)
EXTENDS Integers, Sequences, FiniteSets, TLC, Json

CONSTANTS UserSeq,     \* user modules (strings) in the order sort.Strings gives them
          Entry,       \* the entry module
          G,           \* the global prelude module
          MaxLits,     \* each user module has 0..MaxLits function literals
          Ordered,     \* TRUE: import lists are all permutations of subsets; FALSE: ascending only
          AllowMissing,\* TRUE: a user module other than Entry may have no source file
          DiagChoices, \* each user module has n \in DiagChoices pairs of same-line lexer/parser errors
          Rounds       \* number of independent compilations of the same project per behaviour

User == {UserSeq[i] : i \in 1 .. Len(UserSeq)}
Mods == User \cup {G}

VARIABLES imports, nlits, missing, ndiag,    \* the project (never changes)
          seen, by,     \* by[m]: the module whose import claimed m (G for the two claims of main)
          pc, idx, litsLeft, registry, depGraph, errs, wg, ctr, names, mainpc, sorted, hist,
          bag,          \* the diagnostic bag in insertion order: records [f, line, n]
          round, past   \* completed compilations of this project: <<[sched, out]>>

proj  == <<imports, nlits, missing, ndiag>>
vars  == <<imports, nlits, missing, ndiag, seen, by, pc, idx, litsLeft, registry, depGraph, errs, wg, ctr,
           names, mainpc, sorted, hist, bag, round, past>>

Range(s) == {s[i] : i \in 1 .. Len(s)}

(* TLC cannot compare strings; Ord is the rank sort.Strings would give ("global" sorts first) *)
Ord(m) == IF m = G THEN 0 ELSE CHOOSE k \in 1 .. Len(UserSeq) : UserSeq[k] = m
Less(a, b) == Ord(a) < Ord(b)

RECURSIVE SortSet(_)
SortSet(S) == IF S = {} THEN <<>>
              ELSE LET m == CHOOSE x \in S : \A y \in S : x = y \/ Less(x, y)
                   IN <<m>> \o SortSet(S \ {m})

RECURSIVE Perms(_)
Perms(S) == IF S = {} THEN {<<>>}
            ELSE UNION {{<<x>> \o p : p \in Perms(S \ {x})} : x \in S}

ImportLists == IF Ordered THEN UNION {Perms(S) : S \in SUBSET User}
               ELSE {SortSet(S) : S \in SUBSET User}

Imp(m) == IF m = G THEN <<>> ELSE imports[m]

RECURSIVE ReachR(_, _, _)
ReachR(g, front, acc) == IF front = {} THEN acc
                         ELSE LET nxt == UNION {Range(g[n]) : n \in front} \ acc
                              IN ReachR(g, nxt, acc \cup nxt)
Reach(g, from) == ReachR(g, {from}, {from})     \* nodes reachable from `from` (inclusive)

Init == /\ imports \in [User -> ImportLists]
        /\ nlits \in [User -> 0 .. MaxLits]
        /\ missing \in (IF AllowMissing THEN SUBSET (User \ {Entry}) ELSE {{}})
        /\ ndiag \in [User -> DiagChoices]
        /\ bag = <<>> /\ round = 1 /\ past = <<>>
        /\ seen = {} /\ by = [m \in Mods |-> G] /\ pc = [m \in Mods |-> "idle"] /\ idx = [m \in Mods |-> 1]
        /\ litsLeft = [m \in Mods |-> 0] /\ registry = {G}
        /\ depGraph = [m \in Mods |-> <<>>] /\ errs = <<>> /\ wg = 0 /\ ctr = 0
        /\ names = [m \in Mods |-> <<>>] /\ mainpc = "spawnG" /\ sorted = <<>> /\ hist = <<>>

Lbl(point, owner, arg) == [p |-> point, o |-> owner, a |-> arg]

(* processModule: seen.LoadOrStore + wg.Add + go *)
ClaimFx(m) == IF m \in seen THEN UNCHANGED <<seen, by, pc, wg>>
              ELSE /\ seen' = seen \cup {m} /\ pc' = [pc EXCEPT ![m] = "claimed"] /\ wg' = wg + 1
                   /\ by' = [by EXCEPT ![m] = G]

MainSpawn == /\ mainpc \in {"spawnG", "spawnE"}
             /\ LET m == IF mainpc = "spawnG" THEN G ELSE Entry IN
                /\ ClaimFx(m)
                /\ hist' = Append(hist, Lbl("Spawn", "main", m))
             /\ mainpc' = IF mainpc = "spawnG" THEN "spawnE" ELSE "wait"
             /\ UNCHANGED <<proj, idx, litsLeft, registry, depGraph, errs, ctr, names, sorted, bag, round, past>>

(* the k-th erroneous line of m carries two diagnostics (same file, same line) *)
RECURSIVE LexDiagsN(_, _)
LexDiagsN(m, k) == IF k = 0 THEN <<>>
                   ELSE LexDiagsN(m, k - 1) \o << [f |-> m, line |-> 100 + k, n |-> 1],
                                                   [f |-> m, line |-> 100 + k, n |-> 2] >>
LexDiags(m) == IF m = G THEN <<>> ELSE LexDiagsN(m, ndiag[m])

ImportLine(m, d) == IF d = G THEN 0 ELSE CHOOSE i \in 1 .. Len(Imp(m)) : Imp(m)[i] = d

(* parseModule entry: AddModule, locate + read the file; lexing starts *)
ParseBegin(m) ==
    /\ pc[m] = "claimed"
    /\ registry' = registry \cup {m}
    /\ IF m \in missing
       THEN /\ errs' = Append(errs, [kind |-> "missing", m |-> m, d |-> by[m], path |-> <<>>])     \* reported at the claiming import
            /\ bag' = Append(bag, [f |-> by[m], line |-> ImportLine(by[m], m), n |-> 0])
            /\ pc' = [pc EXCEPT ![m] = "exit"] /\ UNCHANGED litsLeft
       ELSE /\ pc' = [pc EXCEPT ![m] = "parse"]
            /\ litsLeft' = [litsLeft EXCEPT ![m] = IF m = G THEN 0 ELSE nlits[m]]
            /\ bag' = bag \o LexDiags(m)       \* lexer/parser diagnostics of m, in text order
            /\ UNCHANGED errs
    /\ hist' = Append(hist, Lbl("ParseBegin", m, ""))
    /\ UNCHANGED <<proj, seen, by, idx, depGraph, wg, ctr, names, mainpc, sorted, round, past>>

(* utils.GenerateFuncLitID: atomic add on a process-global counter *)
GenLit(m) == /\ pc[m] = "parse" /\ litsLeft[m] > 0
             /\ ctr' = ctr + 1 /\ names' = [names EXCEPT ![m] = Append(@, ctr + 1)]
             /\ litsLeft' = [litsLeft EXCEPT ![m] = @ - 1]
             /\ hist' = Append(hist, Lbl("GenLit", m, "__func_lit__"))
             /\ UNCHANGED <<proj, seen, by, pc, idx, registry, depGraph, errs, wg, mainpc, sorted, bag, round, past>>

(* AddDependency(m, d): the critical section of ctx.mu — cycle search and insertion together *)
(* findCycle / hasCyclePath: depth-first search in the order of the dependency lists, one visited
   set for the whole search; the path found is printed in the diagnostic *)
RECURSIVE Dfs(_, _, _, _)
RECURSIVE DfsList(_, _, _, _, _)
Dfs(g, start, target, visited) ==
    IF start = target THEN [found |-> TRUE, path |-> <<>>, visited |-> visited]
    ELSE IF start \in visited THEN [found |-> FALSE, path |-> <<>>, visited |-> visited]
    ELSE DfsList(g, g[start], target, visited \cup {start}, start)
DfsList(g, deps, target, visited, node) ==
    IF deps = <<>> THEN [found |-> FALSE, path |-> <<>>, visited |-> visited]
    ELSE LET r == Dfs(g, Head(deps), target, visited) IN
         IF r.found THEN [found |-> TRUE, path |-> <<node>> \o r.path, visited |-> r.visited]
         ELSE DfsList(g, Tail(deps), target, r.visited, node)
CyclePath(m, d) == <<m>> \o Dfs(depGraph, d, m, {}).path \o <<m>>

AddDepFx(m, d) ==
    IF m \in Reach(depGraph, d)
    THEN /\ errs' = Append(errs, [kind |-> "cycle", m |-> m, d |-> d, path |-> CyclePath(m, d)])
         /\ UNCHANGED depGraph
         /\ bag' = Append(bag, [f |-> m, line |-> ImportLine(m, d), n |-> 0])
    ELSE /\ depGraph' = [depGraph EXCEPT ![m] = IF d \in Range(@) THEN @ ELSE Append(@, d)]
         /\ UNCHANGED <<errs, bag>>
AddDepResult(m, d) == IF m \in Reach(depGraph, d) THEN "cycle"
                      ELSE IF d \in Range(depGraph[m]) THEN "dup" ELSE "ok"

(* the remaining lexing/parsing after the last literal folds into the first Dep step *)
DepG(m) == /\ pc[m] = "parse" /\ litsLeft[m] = 0 /\ m # G
           /\ AddDepFx(m, G)
           /\ pc' = [pc EXCEPT ![m] = IF Len(Imp(m)) = 0 THEN "exit" ELSE "dep"]
           /\ idx' = [idx EXCEPT ![m] = 1]
           /\ hist' = Append(hist, Lbl("Dep", m, G))
           /\ UNCHANGED <<proj, seen, by, litsLeft, registry, wg, ctr, names, mainpc, sorted, round, past>>

Dep(m) == /\ pc[m] = "dep"
          /\ LET d == Imp(m)[idx[m]] IN
             /\ AddDepFx(m, d)
             /\ hist' = Append(hist, Lbl("Dep", m, d))
          /\ IF idx[m] = Len(Imp(m))
             THEN pc' = [pc EXCEPT ![m] = "spawn"] /\ idx' = [idx EXCEPT ![m] = 1]
             ELSE pc' = pc /\ idx' = [idx EXCEPT ![m] = @ + 1]
          /\ UNCHANGED <<proj, seen, by, litsLeft, registry, wg, ctr, names, mainpc, sorted, round, past>>

Spawn(m) == /\ pc[m] = "spawn"
            /\ LET d == Imp(m)[idx[m]] IN
               /\ IF d \in seen THEN UNCHANGED <<seen, by, wg>> /\ pc' = [pc EXCEPT ![m] =
                                         IF idx[m] = Len(Imp(m)) THEN "exit" ELSE @]
                  ELSE /\ seen' = seen \cup {d} /\ wg' = wg + 1 /\ by' = [by EXCEPT ![d] = m]
                       /\ pc' = [pc EXCEPT ![d] = "claimed",
                                           ![m] = IF idx[m] = Len(Imp(m)) THEN "exit" ELSE @]
               /\ hist' = Append(hist, Lbl("Spawn", m, d))
            /\ idx' = [idx EXCEPT ![m] = @ + 1]
            /\ UNCHANGED <<proj, litsLeft, registry, depGraph, errs, ctr, names, mainpc, sorted, bag, round, past>>

(* the goroutine returns: deferred wg.Done. G has no dependency steps. *)
Exit(m) == /\ \/ pc[m] = "exit"
              \/ (pc[m] = "parse" /\ litsLeft[m] = 0 /\ m = G)
           /\ pc' = [pc EXCEPT ![m] = "done"] /\ wg' = wg - 1
           /\ UNCHANGED <<proj, seen, by, idx, litsLeft, registry, depGraph, errs, ctr, names, mainpc,
                          sorted, hist, bag, round, past>>

MainWait == /\ mainpc = "wait" /\ wg = 0 /\ mainpc' = "topo"
            /\ UNCHANGED <<proj, seen, by, pc, idx, litsLeft, registry, depGraph, errs, wg, ctr, names,
                           sorted, hist, bag, round, past>>

(* ComputeTopologicalOrder: Kahn's algorithm, zero in-degree queue and every wave sorted by name *)
InDeg(g, m) == Len(g[m])
RECURSIVE Kahn(_, _, _, _)
Kahn(g, queue, indeg, out) ==
    IF queue = <<>> THEN out
    ELSE LET cur  == Head(queue)
             hit  == {m \in DOMAIN g : cur \in Range(g[m])}
             ind2 == [m \in DOMAIN indeg |-> IF m \in hit THEN indeg[m] - 1 ELSE indeg[m]]
             next == SortSet({m \in hit : ind2[m] = 0})
         IN Kahn(g, Tail(queue) \o next, ind2, Append(out, cur))
TopoOf(g, reg) == LET indeg == [m \in reg |-> InDeg(g, m)]
                      gr    == [m \in reg |-> g[m]]
                  IN Kahn(gr, SortSet({m \in reg : indeg[m] = 0}), indeg, <<>>)

MainTopo == /\ mainpc = "topo"
            /\ sorted' = TopoOf(depGraph, registry)
            /\ mainpc' = "done"
            /\ UNCHANGED <<proj, seen, by, pc, idx, litsLeft, registry, depGraph, errs, wg, ctr, names, hist,
                           bag, round, past>>

(* What a second compilation must reproduce (C14): failure, diagnostics with their places, the
   names given to function literals, the module order. *)
ErrKey(e) == <<e.kind, e.m, e.d, e.path>>
(* sortDiagnostics: stable sort by (file, line) -- insertion sort keeps ties in insertion order *)
DLess(a, b) == Ord(a.f) < Ord(b.f) \/ (a.f = b.f /\ a.line < b.line)
RECURSIVE InsertStable(_, _)
InsertStable(sq, d) == IF sq = <<>> THEN <<d>>
                       ELSE IF DLess(d, Head(sq)) THEN <<d>> \o sq
                       ELSE <<Head(sq)>> \o InsertStable(Tail(sq), d)
RECURSIVE StableSort(_)
StableSort(sq) == IF sq = <<>> THEN <<>> ELSE InsertStable(StableSort(SubSeq(sq, 1, Len(sq) - 1)), sq[Len(sq)])
Output == [ fail    |-> errs # <<>> \/ bag # <<>>,
            errset  |-> {ErrKey(errs[i]) : i \in 1 .. Len(errs)},
            emitted |-> StableSort(bag),
            names   |-> names,
            sorted  |-> sorted ]

(* compile the same project again (C14): remember schedule and output, reset everything else *)
Restart == /\ mainpc = "done" /\ round < Rounds
           /\ past' = Append(past, [sched |-> hist, out |-> Output])
           /\ round' = round + 1
           /\ seen' = {} /\ by' = [m \in Mods |-> G] /\ pc' = [m \in Mods |-> "idle"] /\ idx' = [m \in Mods |-> 1]
           /\ litsLeft' = [m \in Mods |-> 0] /\ registry' = {G}
           /\ depGraph' = [m \in Mods |-> <<>>] /\ errs' = <<>> /\ wg' = 0 /\ ctr' = 0
           /\ names' = [m \in Mods |-> <<>>] /\ mainpc' = "spawnG" /\ sorted' = <<>> /\ hist' = <<>>
           /\ bag' = <<>>
           /\ UNCHANGED proj

Next == \/ MainSpawn \/ MainWait \/ MainTopo \/ Restart
        \/ \E m \in Mods : ParseBegin(m) \/ GenLit(m) \/ DepG(m) \/ Dep(m) \/ Spawn(m) \/ Exit(m)

Spec     == Init /\ [][Next]_vars
FairSpec == Spec /\ WF_vars(Next)

-----------------------------------------------------------------------------
(* Properties *)
RECURSIVE ReachI(_, _)
ReachI(front, acc) == IF front = {} THEN acc
                      ELSE LET nxt == (UNION {Range(Imp(n)) : n \in (front \ missing)}) \ acc
                           IN ReachI(nxt, acc \cup nxt)
Live     == ReachI({Entry}, {Entry})                    \* modules the build must visit
HasCycle == \E m \in Live \ missing : m \in ReachI(Range(Imp(m)), Range(Imp(m)))
Done     == mainpc = "done"
CycleErrs == {errs[i] : i \in {j \in 1 .. Len(errs) : errs[j].kind = "cycle"}}

Acyclic == \A m \in Mods : \A d \in Range(depGraph[m]) : m \notin Reach(depGraph, d)

CycleRejected == Done /\ HasCycle => CycleErrs # {}

DagBuilds == Done /\ ~HasCycle =>
               /\ CycleErrs = {}
               /\ \A m \in Live \ missing : Range(depGraph[m]) = Range(Imp(m)) \cup {G}

ParsedOnce == /\ wg >= 0
              /\ Done => (seen = Live \cup {G} /\ \A m \in seen : pc[m] = "done")
              /\ \A m \in Mods : pc[m] # "idle" <=> m \in seen

IsTopo(s, g) == \A i, j \in 1 .. Len(s) : s[j] \in Range(g[s[i]]) => j < i
TopoOK == Done /\ missing = {} =>
             /\ Range(sorted) = registry /\ Len(sorted) = Cardinality(registry)
             /\ IsTopo(sorted, depGraph)

Termination == <>Done

View == <<imports, nlits, missing, ndiag, seen, by, pc, idx, litsLeft, registry, depGraph, errs, wg, ctr,
          names, mainpc, sorted, bag, round>>

(* Case emission at terminal states (one per distinct terminal abstract state, thanks to VIEW) *)
ImpJson == [m \in User |-> imports[m]]
AllRounds == Append(past, [sched |-> hist, out |-> Output])
TerminalCase == [ imports |-> ImpJson, nlits |-> nlits, missing |-> SortSet(missing), ndiag |-> ndiag,
                  rounds |-> [i \in 1 .. Len(AllRounds) |->
                                [sched |-> AllRounds[i].sched,
                                 same |-> AllRounds[i].out = AllRounds[1].out,
                                 sameButNames |-> [AllRounds[i].out EXCEPT !.names = <<>>] =
                                                  [AllRounds[1].out EXCEPT !.names = <<>>]]],
                  entry |-> Entry, hasCycle |-> HasCycle, live |-> SortSet(Live \ {G}),
                  cycErrs |-> SortSet({e.m : e \in CycleErrs}),
                  errs |-> errs, names |-> names, sorted |-> sorted,
                  depGraph |-> [m \in User |-> depGraph[m]],
                  sched |-> hist ]
EmitTerminal == (Done /\ round = Rounds) => PrintT("@@CASE " \o ToJson(TerminalCase))
=============================================================================
