SPECIFICATION Spec
CONSTANTS
  UserSeq <- U4
  Entry = "p/m1"
  G = "global"
  MaxLits = 0
  Ordered = FALSE
  AllowMissing = FALSE
  DiagChoices = {0}
  Rounds = 1
INVARIANTS Acyclic CycleRejected DagBuilds ParsedOnce TopoOK EmitTerminal
CHECK_DEADLOCK FALSE
