SPECIFICATION TraceSpec
CONSTANTS
  UserSeq <- UT
  Entry = "p/m1"
  G = "global"
  MaxLits = 3
  Ordered = FALSE
  AllowMissing = FALSE
  DiagChoices = {0}
  Rounds = 1
INVARIANTS EmitOut Acyclic CycleRejected DagBuilds ParsedOnce TopoOK
POSTCONDITION TraceAccepted
CHECK_DEADLOCK FALSE
