SPECIFICATION Spec
CONSTANTS
  UserSeq <- U3
  Entry = "p/m1"
  G = "global"
  MaxLits = 0
  Ordered = TRUE
  AllowMissing = FALSE
  DiagChoices = {0}
  Rounds = 1
INVARIANTS Acyclic CycleRejected DagBuilds ParsedOnce TopoOK EmitTerminal
VIEW View
CHECK_DEADLOCK FALSE
