SPECIFICATION Spec
CONSTANTS
  UserSeq <- U3
  Entry = "p/m1"
  G = "global"
  MaxLits = 0
  Ordered = FALSE
  AllowMissing = TRUE
  DiagChoices = {0}
  Rounds = 1
INVARIANTS Acyclic CycleRejected DagBuilds ParsedOnce TopoOK EmitTerminal

CHECK_DEADLOCK FALSE
