----------------------------- MODULE LoaderTrace -----------------------------
(* Trace validation of the hooked compiler against ModuleLoader (C15, C14, part of C13).
   trace.ndjson is a concatenation of recorded runs; each run starts with a synthetic "Reset"
   record carrying the project the driver generated (import lists, number of function literals,
   missing files). Every other record is an event emitted by internal/verifhook at a
   linearization point. Each event must be explained by the ModuleLoader action it is bound to,
   with the logged fields equal to what the action does in the current spec state:

     Claim(m, loaded)      MainSpawn / Spawn(parent): the import being processed is m and
                           loaded = (m \in seen)
     ParseBegin(m)         ParseBegin(m)
     LitID(m, id)          GenLit(m) with id = ctr + 1        (process-global counter)
     Parsed(m)             no state change; must follow m's last literal
     DepEdge(m, d, res)    DepG(m) / Dep(m): d is the import the action is at and
                           res = AddDepResult(m, d) -- the atomic check-and-insert
     ParseEnd(m)           Exit(m)
     WaitDone              MainWait      (wg = 0)
     Topo(sorted)          MainTopo with sorted' = the logged order                         *)
EXTENDS ModuleLoader

Trace == ndJsonDeserialize("trace.ndjson")

RECURSIVE SetToSeq(_)
SetToSeq(S) == IF S = {} THEN <<>> ELSE LET x == CHOOSE y \in S : TRUE IN <<x>> \o SetToSeq(S \ {x})
SortSet3(S) == SetToSeq(S)     \* CHOOSE is deterministic in TLC: equal sets give equal sequences

VARIABLES l, parsed
tvars == <<vars, l, parsed>>

Ev == Trace[l]
IsEvent(e) == l <= Len(Trace) /\ Ev.ev = e /\ l' = l + 1

ToSeqOfMods(x) == x       \* JSON arrays deserialize to sequences (tuples); <<>> for []

TraceInit == /\ imports = [m \in User |-> <<>>] /\ nlits = [m \in User |-> 0] /\ missing = {}
             /\ ndiag = [m \in User |-> 0] /\ bag = <<>> /\ round = 1 /\ past = <<>>
             /\ seen = {} /\ by = [m \in Mods |-> G] /\ pc = [m \in Mods |-> "idle"] /\ idx = [m \in Mods |-> 1]
             /\ litsLeft = [m \in Mods |-> 0] /\ registry = {G}
             /\ depGraph = [m \in Mods |-> <<>>] /\ errs = <<>> /\ wg = 0 /\ ctr = 0
             /\ names = [m \in Mods |-> <<>>] /\ mainpc = "spawnG" /\ sorted = <<>> /\ hist = <<>>
             /\ l = 1 /\ parsed = {}

(* A new run: take the project from the record, reset the loader state. *)
TReset == /\ IsEvent("Reset")
          /\ (l = 1 \/ mainpc = "done")       \* the previous run must have completed its protocol
          /\ imports' = [m \in User |-> IF m \in DOMAIN Ev.imports THEN Ev.imports[m] ELSE <<>>]
          /\ nlits' = [m \in User |-> IF m \in DOMAIN Ev.nlits THEN Ev.nlits[m] ELSE 0]
          /\ missing' = {Ev.missing[i] : i \in 1 .. Len(Ev.missing)}
          /\ ndiag' = [m \in User |-> IF "ndiag" \in DOMAIN Ev /\ m \in DOMAIN Ev.ndiag THEN Ev.ndiag[m] ELSE 0]
          /\ bag' = <<>> /\ UNCHANGED past
          /\ round' = IF "id" \in DOMAIN Ev THEN Ev.id ELSE 0      \* run identifier (trace mode)
          /\ seen' = {} /\ by' = [m \in Mods |-> G] /\ pc' = [m \in Mods |-> "idle"] /\ idx' = [m \in Mods |-> 1]
          /\ litsLeft' = [m \in Mods |-> 0] /\ registry' = {G}
          /\ depGraph' = [m \in Mods |-> <<>>] /\ errs' = <<>> /\ wg' = 0 /\ ctr' = 0
          /\ names' = [m \in Mods |-> <<>>] /\ mainpc' = "spawnG" /\ sorted' = <<>> /\ hist' = <<>>
          /\ parsed' = {}

TClaim == /\ IsEvent("Claim")
          /\ Ev.m \in Mods
          /\ Ev.loaded = (Ev.m \in seen)
          /\ \/ /\ Ev.g = "main" /\ MainSpawn
                /\ Ev.m = (IF mainpc = "spawnG" THEN G ELSE Entry)
             \/ /\ Ev.g \in Mods /\ pc[Ev.g] = "spawn" /\ Imp(Ev.g)[idx[Ev.g]] = Ev.m
                /\ Spawn(Ev.g)
          /\ UNCHANGED parsed

TParseBegin == IsEvent("ParseBegin") /\ Ev.m \in Mods /\ ParseBegin(Ev.m) /\ UNCHANGED parsed

TLitID == /\ IsEvent("LitID") /\ Ev.g \in Mods
          /\ GenLit(Ev.g) /\ Ev.id = ctr + 1
          /\ UNCHANGED parsed

TParsed == /\ IsEvent("Parsed") /\ Ev.m \in Mods
           /\ pc[Ev.m] = "parse" /\ litsLeft[Ev.m] = 0 /\ Ev.m \notin parsed
           /\ parsed' = parsed \cup {Ev.m}
           /\ UNCHANGED vars

TDepEdge == /\ IsEvent("DepEdge") /\ Ev.m \in Mods /\ Ev.d \in Mods
            /\ Ev.m \in parsed
            /\ Ev.res = AddDepResult(Ev.m, Ev.d)
            /\ \/ (pc[Ev.m] = "parse" /\ Ev.d = G /\ DepG(Ev.m))
               \/ (pc[Ev.m] = "dep" /\ Ev.d = Imp(Ev.m)[idx[Ev.m]] /\ Dep(Ev.m))
            /\ UNCHANGED parsed

TParseEnd == /\ IsEvent("ParseEnd") /\ Ev.m \in Mods
             /\ (Ev.m \in parsed \/ Ev.m \in missing)
             /\ Exit(Ev.m) /\ UNCHANGED parsed

TWaitDone == IsEvent("WaitDone") /\ MainWait /\ UNCHANGED parsed

TTopo == /\ IsEvent("Topo") /\ MainTopo
         /\ sorted' = Ev.sorted
         /\ UNCHANGED parsed

TraceNext == TReset \/ TClaim \/ TParseBegin \/ TLitID \/ TParsed \/ TDepEdge \/ TParseEnd
             \/ TWaitDone \/ TTopo

TraceSpec == TraceInit /\ [][TraceNext]_tvars

(* C14: the specification's Output for each validated run; the driver groups the runs of one
   project by this value -- runs with equal Output must produce byte-identical real output. *)
EmitOut == mainpc = "done" => PrintT("@@OUT " \o ToJson([id |-> round, out |->
                 [Output EXCEPT !.errset = SortSet3(Output.errset)]]))

(* all events consumed and the last run completed *)
TraceAccepted == TLCGet("stats").diameter - 1 = Len(Trace)
=============================================================================
