----------------------------- MODULE LayoutGen -----------------------------
(* Enumerator of type expressions for C18.  A type is [k, n, a, kids]:
   k = "p" (primitive n), "st" (struct of kids), "ar" (a elements of kids[1]), "op" (optional of kids[1]),
   "rs" (result: kids[1] ok, kids[2] error).
     D1   all types of depth 1 over the eight leaf widths (1, 2, 4, 8, 16, 32 bytes, bool, pointer-sized str)
     D2   structs of up to three fields over the leaves and a reduced set of depth-1 types, arrays and
          optionals of structs
     FAM  families of five- and six-field structs over two widths (many look-alike types in one session) *)
EXTENDS Naturals, Sequences, FiniteSets, TLC, Json
CONSTANT Mode

Leaves == {"i8", "u16", "i32", "i64", "u128", "i256", "bool", "str"}
P(n) == [k |-> "p", n |-> n, a |-> 0, kids |-> <<>>]
St(fs) == [k |-> "st", n |-> "", a |-> Len(fs), kids |-> fs]
Ar(c, e) == [k |-> "ar", n |-> "", a |-> c, kids |-> <<e>>]
Op(e) == [k |-> "op", n |-> "", a |-> 0, kids |-> <<e>>]
Rs(o, e) == [k |-> "rs", n |-> "", a |-> 0, kids |-> <<o, e>>]
SeqsUpTo(S, m) == UNION { [1 .. c -> S] : c \in 1 .. m }

D0 == { P(n) : n \in Leaves }
D1 == { St(fs) : fs \in SeqsUpTo(D0, 3) } \cup { Ar(c, e) : c \in {2, 3}, e \in D0 } \cup { Op(e) : e \in D0 }
      \cup { Rs(o, e) : o \in D0, e \in D0 }

Small == { P(n) : n \in {"i8", "i64", "u128"} }
Red == D0 \cup { St(fs) : fs \in [1 .. 2 -> Small] } \cup { Ar(3, P(n)) : n \in {"i8", "u16", "i64"} }
          \cup { Op(P(n)) : n \in {"i8", "i64", "i256", "str"} }
Inner == { St(fs) : fs \in [1 .. 2 -> Small] } \cup { St(<<P("i8"), P("i32"), P("u16")>>), St(<<P("u16"), P("i256"), P("bool")>>) }
(* results whose payloads are not primitives: sizes that are not multiples of the union alignment *)
RsP == D0 \cup { Ar(3, P(n)) : n \in {"i8", "u16", "i32"} }
          \cup { St(<<P("i32"), P("i32"), P("i32")>>), St(<<P("i8"), P("i8"), P("i8")>>), St(<<P("i64"), P("i8")>>) }
RS2 == { Rs(o, e) : o \in RsP, e \in RsP } \ { Rs(o, e) : o \in D0, e \in D0 }

(* element types of arrays: struct sizes that are odd, even but no power of two, and powers of two *)
Elems == Inner \cup { St(<<P("i32"), P("i32"), P("i32")>>), St(<<P("u16"), P("u16"), P("u16")>>), St(<<P("i64"), P("i64"), P("i64")>>),
                      St(<<P("i8"), P("i8"), P("i8")>>), St(<<P("i32"), P("u16")>>), St(<<P("str"), P("i32")>>), Ar(3, P("i32")), Ar(3, P("u16")) }
D2 == { St(fs) : fs \in SeqsUpTo(Red, 3) \ SeqsUpTo(D0, 3) }
      \cup { Ar(c, e) : c \in {2, 3}, e \in Elems } \cup { Op(e) : e \in Inner }
      \cup { St(<<P("i8"), Op(e), P("u16")>>) : e \in Inner } \cup { St(<<P("bool"), Ar(2, e), P("i8")>>) : e \in Inner }
      \cup RS2

Two == { P("i8"), P("i64") }
FAM == { St(fs) : fs \in [1 .. 5 -> Two] } \cup { St(fs) : fs \in [1 .. 6 -> Two] }

Space == CASE Mode = "d1" -> D1 [] Mode = "d2" -> D2 [] Mode = "fam" -> FAM

VARIABLE t
Init == t = P("")
Next == t = P("") /\ t' \in Space
Spec == Init /\ [][Next]_t
Emit == t = P("") \/ PrintT("@@CASE " \o ToJson(t))
=============================================================================
