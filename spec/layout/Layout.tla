------------------------------- MODULE Layout -------------------------------
(* Layout soundness (C18).  The specification does not prescribe a layout algorithm: any assignment of
   sizes and offsets is acceptable as long as every component of a composite value has storage of its own.
   A *layout node* is what the implementation reports for one type expression:

     prim   [k |-> "p",  n |-> type name, size, align]
     struct [k |-> "st", size, align, offs |-> <<offset of field i>>, kids |-> <<node of field i>>]
     array  [k |-> "ar", a |-> length, size, align, stride, kids |-> <<element node>>]
     opt    [k |-> "op", size, align, flag |-> offset of the is-some byte, kids |-> <<payload node>>]
     result [k |-> "rs", size, align, tag |-> offset of the ok/err byte, kids |-> <<ok node, err node>>]

   Sound(L) holds iff storing into one component cannot touch another one, the discriminant or anything
   outside the value:
     - a primitive has at least as many bytes as its width (pointer-sized ones: the target's pointer size);
     - the fields of a struct lie inside the struct and are pairwise disjoint;
     - the elements of an array are at least one element size apart and all inside the array;
     - the optional's flag byte lies outside the payload and inside the optional;
     - the result's tag byte lies outside both payloads and inside the result.
   Alignment is reported but not demanded: neither target needs aligned accesses for a value to stay intact. *)
EXTENDS Naturals, Sequences, TLC

Width(n, ptr) ==
    CASE n \in {"i8", "u8", "bool", "byte"} -> 1
      [] n \in {"i16", "u16"} -> 2
      [] n \in {"i32", "u32", "f32"} -> 4
      [] n \in {"i64", "u64", "f64"} -> 8
      [] n \in {"i128", "u128", "f128"} -> 16
      [] n \in {"i256", "u256", "f256"} -> 32
      [] n \in {"str", "ref", "dyn", "map"} -> ptr

Max2(a, b) == IF a >= b THEN a ELSE b

Disjoint(offs, kids) == \A i, j \in 1 .. Len(offs) :
    i < j => (offs[i] + kids[i].size <= offs[j] \/ offs[j] + kids[j].size <= offs[i])
Inside(offs, kids, size) == \A i \in 1 .. Len(offs) : offs[i] + kids[i].size <= size

RECURSIVE Why(_, _), FirstWhy(_, _, _)
(* "" when the node is sound, else the name of the first predicate that fails (with the path to the node) *)
FirstWhy(kids, i, ptr) == IF i > Len(kids) THEN ""
                          ELSE LET w == Why(kids[i], ptr) IN
                               IF w # "" THEN ToString(i) \o "." \o w ELSE FirstWhy(kids, i + 1, ptr)
Why(L, ptr) ==
    IF L.size < 0 THEN "negative-size" ELSE
    CASE L.k = "p"  -> IF L.size < Width(L.n, ptr) THEN "prim-too-small" ELSE ""
      [] L.k = "st" -> IF Len(L.offs) # Len(L.kids) THEN "field-missing"
                       ELSE IF ~Inside(L.offs, L.kids, L.size) THEN "field-outside"
                       ELSE IF ~Disjoint(L.offs, L.kids) THEN "fields-overlap"
                       ELSE FirstWhy(L.kids, 1, ptr)
      [] L.k = "ar" -> IF L.stride < L.kids[1].size THEN "elements-overlap"
                       ELSE IF L.a * L.stride > L.size THEN "element-outside"
                       ELSE FirstWhy(L.kids, 1, ptr)
      [] L.k = "op" -> IF L.flag < L.kids[1].size THEN "flag-in-payload"
                       ELSE IF L.flag + 1 > L.size THEN "flag-outside"
                       ELSE FirstWhy(L.kids, 1, ptr)
      [] L.k = "rs" -> IF L.tag < Max2(L.kids[1].size, L.kids[2].size) THEN "tag-in-payload"
                       ELSE IF L.tag + 1 > L.size THEN "tag-outside"
                       ELSE FirstWhy(L.kids, 1, ptr)
Sound(L, ptr) == Why(L, ptr) = ""

(* advisory only *)
RECURSIVE Aligned(_)
Aligned(L) == /\ L.align >= 1 /\ L.size % L.align = 0
              /\ (L.k = "st" => \A i \in 1 .. Len(L.offs) : L.offs[i] % L.kids[i].align = 0)
              /\ (L.k # "p" => \A i \in 1 .. Len(L.kids) : Aligned(L.kids[i]))
=============================================================================
