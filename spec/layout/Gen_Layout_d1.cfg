SPECIFICATION Spec
CONSTANT Mode = "d1"
INVARIANT Emit
CHECK_DEADLOCK FALSE
