---------------------------- MODULE LayoutCheck ----------------------------
(* Validation of the layouts the real implementation reports (cases.ndjson, one record per type and
   pointer size: [id, ptr, fresh, shared]).  fresh: the layout computed by a DataLayout that has seen no other
   type; shared: the one computed by the DataLayout that has laid out every earlier type of the session.
   Verdict: why |-> first soundness predicate that fails on the shared layout ("" = sound),
            whyf |-> the same for the fresh layout, same |-> the layout of a type does not depend on which
            types were laid out before, aligned |-> advisory. *)
EXTENDS Layout, Json
Cases == ndJsonDeserialize("cases.ndjson")
VARIABLE ci
Init == ci = 1
Verdict(c) == [id |-> c.id, ptr |-> c.ptr, why |-> Why(c.shared, c.ptr), whyf |-> Why(c.fresh, c.ptr),
               same |-> (c.fresh = c.shared), aligned |-> Aligned(c.shared)]
Next == /\ ci <= Len(Cases) /\ ci' = ci + 1
        /\ PrintT("@@OUT " \o ToJson(Verdict(Cases[ci])))
Spec == Init /\ [][Next]_ci
=============================================================================
