SPECIFICATION Spec
CONSTANT Mode = "d2"
INVARIANT Emit
CHECK_DEADLOCK FALSE
