SPECIFICATION Spec
CONSTANT Mode = "fam"
INVARIANT Emit
CHECK_DEADLOCK FALSE
