SPECIFICATION RawSpec
CONSTANTS
  SectionOrder <- Order2
  Keys <- Keys1
  ValueClasses <- TwoClasses
  MaxKeys = 1
  RawAlphabet <- Alpha
  RawLen = 3
  RawPrefixes <- Prefixes
INVARIANT EmitRaw
CHECK_DEADLOCK FALSE
