SPECIFICATION RawSpec2
CONSTANTS
  SectionOrder <- Order2
  Keys <- Keys1
  ValueClasses <- TwoClasses
  MaxKeys = 1
  RawAlphabet <- NumAlpha
  RawLen = 4
  RawPrefixes <- NumPrefixes
INVARIANT EmitRaw
CHECK_DEADLOCK FALSE
