SPECIFICATION Spec
CONSTANTS
  SectionOrder <- Order7
  Keys <- Keys1
  ValueClasses <- TwoClasses
  RawAlphabet <- NoAlpha
  RawLen = 0
  RawPrefixes <- NoPrefix
  MaxKeys = 1
INVARIANT Emit
CHECK_DEADLOCK FALSE
