SPECIFICATION Spec
CONSTANTS
  SectionOrder <- Order2
  Keys <- Keys2
  ValueClasses <- AllClasses
  MaxKeys = 2
INVARIANT RoundTripInv CommentInv
CHECK_DEADLOCK FALSE
