------------------------------ MODULE MC_Toml ------------------------------
EXTENDS Toml
SDefault == <<"d","e","f","a","u","l","t">>
SCompiler == <<"c","o","m","p","i","l","e","r">>
SBuild == <<"b","u","i","l","d">>
SCache == <<"c","a","c","h","e">>
SExternal == <<"e","x","t","e","r","n","a","l">>
SNeighbors == <<"n","e","i","g","h","b","o","r","s">>
SDeps == <<"d","e","p","e","n","d","e","n","c","i","e","s">>
Order2 == <<SDefault, SBuild>>
Order1 == <<SCompiler>>
TwoClasses == {"str_hash", "flt_frac"}
Order7 == <<SDefault, SCompiler, SBuild, SCache, SExternal, SNeighbors, SDeps>>
Keys2 == {<<"n","a","m","e">>, <<"o","p","t","_","1">>}
Keys1 == {<<"n","a","m","e">>}
Alpha == {"a", "7", " ", "#", "=", "[", "]", "\"", "\\", ".", "-"}
Prefixes == {<<>>, <<"k", " ", "=", " ">>, <<"[", "s", "]", "=">>}
NumAlpha == {"i", "n", "f", "a", "N", "e", "1", "+", "-", ".", "x", "p", "0"}
NumPrefixes == {<<"k", " ", "=", " ">>}
NoAlpha == {}
NoPrefix == {<<>>}
AllClasses == {"str_plain", "str_empty", "str_hash", "str_eq", "str_bracket", "str_blanks", "str_digits",
               "str_float", "str_True", "str_inf", "str_Infinity", "str_NaN", "str_neginf", "str_exp", "str_hexfloat",
               "str_plusint", "str_negint", "str_dotfrac", "str_underscore", "bool_true", "bool_false", "int_pos", "int_zero", "int_neg", "int_max",
               "flt_frac", "flt_negfrac", "flt_tiny", "flt_integral", "flt_negintegral", "flt_zero", "flt_1e19"}
=============================================================================
