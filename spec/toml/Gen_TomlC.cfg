SPECIFICATION Spec
CONSTANTS
  SectionOrder <- Order1
  Keys <- Keys2
  ValueClasses <- AllClasses
  RawAlphabet <- NoAlpha
  RawLen = 0
  RawPrefixes <- NoPrefix
  MaxKeys = 2
INVARIANT Emit
CHECK_DEADLOCK FALSE
