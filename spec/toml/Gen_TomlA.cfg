SPECIFICATION Spec
CONSTANTS
  SectionOrder <- Order2
  Keys <- Keys1
  ValueClasses <- AllClasses
  RawAlphabet <- NoAlpha
  RawLen = 0
  RawPrefixes <- NoPrefix
  MaxKeys = 1
INVARIANT Emit
CHECK_DEADLOCK FALSE
