-------------------------------- MODULE Toml --------------------------------
(* C20 — the TOML writer (toml/writer.go) and parser (toml/parser.go) as functions over sequences
   of characters (a character is a 1-character string), and the round-trip property.

   Values are modelled by kind and payload:
     [k |-> "str",   t |-> chars]            string (the writable domain: no quote, backslash, newline,
                                              not spelled true/false)
     [k |-> "bool",  t |-> <<"t","r","u","e">> or false]
     [k |-> "int",   t |-> canonical decimal text]
     [k |-> "float", t |-> the text strconv.FormatFloat(v,'f',-1,64) produces for it, f |-> class]
   For floats the writer's text is part of the value class (FloatClasses): TLA+ has no reals, so the
   formatting of a class representative is a table entry; what the specification decides is how the
   PARSER classifies that text.  Write and Parse are transcriptions of what the code does (one
   operator per function), RoundTrip is the property. *)
EXTENDS Integers, Sequences, FiniteSets, TLC, Json

CONSTANTS SectionOrder,   \* the writer's fixed section order (sequence of names)
          Keys,           \* key names (strings, identifier-like)
          ValueClasses,   \* set of value-class names drawn from the table below
          MaxKeys         \* at most this many keys per section

Chars(s) == s             \* strings are given as sequences of 1-character strings

Digits == {"0", "1", "2", "3", "4", "5", "6", "7", "8", "9"}
IsDigits(s) == s # <<>> /\ \A i \in 1 .. Len(s) : s[i] \in Digits

(* ---- value classes: name |-> value ---- *)
V(k, t) == [k |-> k, t |-> t]
ClassValue(c) ==
    CASE c = "str_plain"   -> V("str", <<"a", "b">>)
      [] c = "str_empty"   -> V("str", <<>>)
      [] c = "str_hash"    -> V("str", <<"a", "#", "b">>)
      [] c = "str_eq"      -> V("str", <<"a", "=", "b">>)
      [] c = "str_bracket" -> V("str", <<"[", "a", "]">>)
      [] c = "str_blanks"  -> V("str", <<" ", "a", " ">>)
      [] c = "str_digits"  -> V("str", <<"4", "2">>)
      [] c = "str_float"   -> V("str", <<"1", ".", "5">>)
      [] c = "str_True"    -> V("str", <<"T", "r", "u", "e">>)
      (* strings spelled like something strconv.Atoi / strconv.ParseFloat accepts: they survive only
         because the writer quotes them *)
      [] c = "str_inf"     -> V("str", <<"i", "n", "f">>)
      [] c = "str_Infinity" -> V("str", <<"I", "n", "f", "i", "n", "i", "t", "y">>)
      [] c = "str_NaN"     -> V("str", <<"N", "a", "N">>)
      [] c = "str_neginf"  -> V("str", <<"-", "i", "n", "f">>)
      [] c = "str_exp"     -> V("str", <<"1", "e", "5">>)
      [] c = "str_hexfloat" -> V("str", <<"0", "x", "1", "p", "1">>)
      [] c = "str_plusint" -> V("str", <<"+", "7">>)
      [] c = "str_negint"  -> V("str", <<"-", "7">>)
      [] c = "str_dotfrac" -> V("str", <<".", "5">>)
      [] c = "str_underscore" -> V("str", <<"1", "_", "0">>)
      [] c = "bool_true"   -> V("bool", <<"t", "r", "u", "e">>)
      [] c = "bool_false"  -> V("bool", <<"f", "a", "l", "s", "e">>)
      [] c = "int_pos"     -> V("int", <<"4", "2">>)
      [] c = "int_zero"    -> V("int", <<"0">>)
      [] c = "int_neg"     -> V("int", <<"-", "7">>)
      [] c = "int_max"     -> V("int", <<"9","2","2","3","3","7","2","0","3","6","8","5","4","7","7","5","8","0","7">>)
      [] c = "flt_frac"    -> V("float", <<"1", ".", "5">>)
      [] c = "flt_negfrac" -> V("float", <<"-", "0", ".", "2", "5">>)
      [] c = "flt_tiny"    -> V("float", <<"0", ".", "0", "0", "0", "0", "0", "0", "1">>)
      [] c = "flt_integral" -> V("float", <<"2">>)              \* 2.0: FormatFloat gives "2"
      [] c = "flt_negintegral" -> V("float", <<"-", "3">>)      \* -3.0: "-3"
      [] c = "flt_zero"    -> V("float", <<"0">>)               \* 0.0: "0"
      [] c = "flt_1e19"    -> V("float", <<"1","0","0","0","0","0","0","0","0","0","0","0","0","0","0","0","0","0","0","0">>)

(* ---- writer ---- *)
Quote == "\""
HasDot(s) == \E i \in 1 .. Len(s) : s[i] = "."
FmtValue(v) == IF v.k = "str" THEN <<Quote>> \o v.t \o <<Quote>>        \* needsQuoting: all but true/false
               ELSE IF v.k = "float" /\ ~HasDot(v.t) THEN v.t \o <<".", "0">>   \* integral floats keep a ".0"
               ELSE v.t
KVLine(key, v, comment) == Chars(key) \o <<" ", "=", " ">> \o FmtValue(v) \o
                           (IF comment = <<>> THEN <<>> ELSE <<" ", "#", " ">> \o comment)
RECURSIVE SetToSeq(_)
SetToSeq(S) == IF S = {} THEN <<>> ELSE LET x == CHOOSE y \in S : TRUE IN <<x>> \o SetToSeq(S \ {x})
SectionLines(name, tbl, comments) ==
    (IF name = <<"d","e","f","a","u","l","t">> THEN <<>> ELSE << <<>>, <<"[">> \o name \o <<"]">> >>) \o
    LET ks == SetToSeq(DOMAIN tbl)      \* Go map order: any order; the parse result does not depend on it
    IN [i \in 1 .. Len(ks) |-> KVLine(ks[i], tbl[ks[i]], comments)]
RECURSIVE WriteFrom(_, _, _)
WriteFrom(d, i, comments) == IF i > Len(SectionOrder) THEN <<>>
    ELSE (IF SectionOrder[i] \in DOMAIN d THEN SectionLines(SectionOrder[i], d[SectionOrder[i]], comments)
          ELSE <<>>) \o WriteFrom(d, i + 1, comments)
Write(d, comments) == WriteFrom(d, 1, comments)

(* ---- parser ---- *)
IsSpace(c) == c \in {" ", "\t"}
RECURSIVE LTrim(_)
LTrim(s) == IF s # <<>> /\ IsSpace(Head(s)) THEN LTrim(Tail(s)) ELSE s
RECURSIVE RTrim(_)
RTrim(s) == IF s # <<>> /\ IsSpace(s[Len(s)]) THEN RTrim(SubSeq(s, 1, Len(s) - 1)) ELSE s
Trim(s) == RTrim(LTrim(s))
ShouldSkip(l) == l = <<>> \/ Head(l) = "#"
IsHeader(l) == l # <<>> /\ Head(l) = "[" /\ l[Len(l)] = "]"
HeaderName(l) == Trim(SubSeq(l, 2, Len(l) - 1))
RECURSIVE IndexOf(_, _, _)
IndexOf(s, c, i) == IF i > Len(s) THEN 0 ELSE IF s[i] = c THEN i ELSE IndexOf(s, c, i + 1)
(* stripInlineComment: a '#' outside quotes ends the value; backslash escapes the next character *)
RECURSIVE StripC(_, _, _, _, _)
StripC(s, i, inq, esc, acc) ==
    IF i > Len(s) THEN Trim(acc)
    ELSE LET c == s[i] IN
         IF esc THEN StripC(s, i + 1, inq, FALSE, Append(acc, c))
         ELSE IF c = "\\" THEN StripC(s, i + 1, inq, TRUE, Append(acc, c))
         ELSE IF c = Quote THEN StripC(s, i + 1, ~inq, FALSE, Append(acc, c))
         ELSE IF c = "#" /\ ~inq THEN Trim(acc)
         ELSE StripC(s, i + 1, inq, FALSE, Append(acc, c))
StripComment(s) == StripC(s, 1, FALSE, FALSE, <<>>)
RECURSIVE TrimQuotesL(_)
TrimQuotesL(s) == IF s # <<>> /\ Head(s) = Quote THEN TrimQuotesL(Tail(s)) ELSE s
RECURSIVE TrimQuotesR(_)
TrimQuotesR(s) == IF s # <<>> /\ s[Len(s)] = Quote THEN TrimQuotesR(SubSeq(s, 1, Len(s) - 1)) ELSE s
TrimQuotes(s) == TrimQuotesR(TrimQuotesL(s))                       \* strings.Trim(val, `"`)
(* strconv.Atoi: optional sign, decimal digits, must fit in 64 bits (19 digits, checked coarsely) *)
Unsigned(s) == IF s # <<>> /\ Head(s) \in {"-", "+"} THEN Tail(s) ELSE s
IsIntText(s) == IsDigits(Unsigned(s)) /\ Len(Unsigned(s)) <= 19
(* strconv.ParseFloat: [sign] "inf" | "infinity" (any case), "nan" (any case, no sign), decimal
   mantissa (digits with at most one '.', at least one digit) with an optional exponent e[sign]digits,
   hexadecimal mantissa 0x... with a mandatory exponent p[sign]digits.  Underscores and values out of
   the float64 range are outside the enumerated alphabets / lengths. *)
Lower(c) == CASE c = "I" -> "i" [] c = "N" -> "n" [] c = "F" -> "f" [] c = "A" -> "a" [] c = "T" -> "t"
              [] c = "Y" -> "y" [] c = "E" -> "e" [] c = "X" -> "x" [] c = "P" -> "p"
              [] c = "B" -> "b" [] c = "C" -> "c" [] c = "D" -> "d" [] OTHER -> c
LowerSeq(s) == [i \in 1 .. Len(s) |-> Lower(s[i])]
HexDigits == Digits \cup {"a", "b", "c", "d", "e", "f"}
IsMantissa(u, ds) == LET p == IndexOf(u, ".", 1)
                         AllIn(x) == \A i \in 1 .. Len(x) : x[i] \in ds
                     IN IF p = 0 THEN u # <<>> /\ AllIn(u)
                        ELSE Len(u) > 1 /\ AllIn(SubSeq(u, 1, p - 1)) /\ AllIn(SubSeq(u, p + 1, Len(u)))
IsSpecialFloat(s) == LET l == LowerSeq(s) IN
    l = <<"n", "a", "n">> \/ Unsigned(l) \in {<<"i", "n", "f">>, <<"i", "n", "f", "i", "n", "i", "t", "y">>}
IsDecFloat(u) == LET e == IndexOf(u, "e", 1) IN
    IF e = 0 THEN IsMantissa(u, Digits)
    ELSE IsMantissa(SubSeq(u, 1, e - 1), Digits) /\ IsDigits(Unsigned(SubSeq(u, e + 1, Len(u))))
IsHexFloat(u) == Len(u) >= 5 /\ u[1] = "0" /\ u[2] = "x" /\
    LET m == SubSeq(u, 3, Len(u))  q == IndexOf(m, "p", 1) IN
    q > 1 /\ IsMantissa(SubSeq(m, 1, q - 1), HexDigits) /\ IsDigits(Unsigned(SubSeq(m, q + 1, Len(m))))
IsFloatText(s) == IsSpecialFloat(s) \/ LET u == Unsigned(LowerSeq(s)) IN IsDecFloat(u) \/ IsHexFloat(u)
CanonInt(s) == s       \* the classes use canonical texts
(* a float is identified by its shortest 'f' text: "2.0" denotes the same number as "2" *)
CanonFloat(s) == IF Len(s) > 2 /\ s[Len(s)] = "0" /\ s[Len(s) - 1] = "." /\ ~HasDot(SubSeq(s, 1, Len(s) - 2))
                 THEN SubSeq(s, 1, Len(s) - 2) ELSE s
ParseValue(val) ==
    IF val # <<>> /\ Head(val) = Quote /\ val[Len(val)] = Quote THEN V("str", TrimQuotes(val))
    ELSE IF val \in {<<"t","r","u","e">>, <<"f","a","l","s","e">>} THEN V("bool", val)
    ELSE IF IsIntText(val) THEN V("int", CanonInt(val))
    ELSE IF IsFloatText(val) THEN V("float", CanonFloat(val))
    ELSE V("str", val)
Put(f, k, v) == [x \in (DOMAIN f) \cup {k} |-> IF x = k THEN v ELSE f[x]]
Ensure(d, sec) == IF sec \in DOMAIN d THEN d ELSE Put(d, sec, <<>>)
EffSection(cur) == IF cur = <<>> THEN <<"d","e","f","a","u","l","t">> ELSE cur
(* one line; returns [d, cur, err] *)
ParseLine(st, raw) ==
    LET l == Trim(raw) IN
    IF st.err \/ ShouldSkip(l) THEN st
    ELSE IF IsHeader(l) THEN [d |-> Ensure(st.d, HeaderName(l)), cur |-> HeaderName(l), err |-> FALSE]
    ELSE LET p == IndexOf(l, "=", 1) IN
         IF p = 0 THEN [st EXCEPT !.err = TRUE]
         ELSE LET key == Trim(SubSeq(l, 1, p - 1))
                  val == ParseValue(StripComment(Trim(SubSeq(l, p + 1, Len(l)))))
                  sec == EffSection(st.cur)
                  d1 == Ensure(st.d, sec)
              IN [d |-> Put(d1, sec, Put(d1[sec], key, val)), cur |-> st.cur, err |-> FALSE]
RECURSIVE ParseFrom(_, _, _)
ParseFrom(st, lines, i) == IF i > Len(lines) THEN st ELSE ParseFrom(ParseLine(st, lines[i]), lines, i + 1)
Parse(lines) == ParseFrom([d |-> <<>>, cur |-> <<>>, err |-> FALSE], lines, 1)

(* ---- the property ---- *)
RoundTrips(d) == LET r == Parse(Write(d, <<>>)) IN ~r.err /\ r.d = d
CommentInert(d) == Parse(Write(d, <<"c", " ", Quote, "#">>)).d = Parse(Write(d, <<>>)).d

(* ---- enumerator of tables over the domain ---- *)
VARIABLE doc
Values == {ClassValue(c) : c \in ValueClasses}
Tables == UNION {[ks -> ValueClasses] : ks \in {S \in SUBSET Keys : Cardinality(S) <= MaxKeys}}
SecNames == {SectionOrder[i] : i \in 1 .. Len(SectionOrder)}
Init == doc \in UNION {[S -> Tables] : S \in SUBSET SecNames}
Next == UNCHANGED doc
Spec == Init /\ [][Next]_doc
Concrete(dc) == [s \in DOMAIN dc |-> [k \in DOMAIN dc[s] |-> ClassValue(dc[s][k])]]
ToStr(cs) == cs
DocJson == LET ss == SetToSeq(DOMAIN doc) IN
           [i \in 1 .. Len(ss) |->
              [name |-> ss[i],
               kvs |-> LET ks == SetToSeq(DOMAIN doc[ss[i]]) IN
                       [j \in 1 .. Len(ks) |-> [key |-> ks[j], cls |-> doc[ss[i]][ks[j]],
                                                 kind |-> ClassValue(doc[ss[i]][ks[j]]).k,
                                                 text |-> ClassValue(doc[ss[i]][ks[j]]).t]]]]
Case == [ secs |-> DocJson,
          roundtrips |-> RoundTrips(Concrete(doc)),
          commentInert |-> CommentInert(Concrete(doc)) ]
Emit == PrintT("@@CASE " \o ToJson(Case))
(* ---- enumerator of arbitrary short contents (no-crash clause + conformance of the parser model) ---- *)
CONSTANTS RawAlphabet, RawLen, RawPrefixes
RawStrings == UNION {[1 .. n -> RawAlphabet] : n \in 0 .. RawLen}
RawInit == doc \in {p \o s : p \in RawPrefixes, s \in RawStrings}
RawSpec == RawInit /\ [][Next]_doc
Summary(r) == [err |-> r.err,
               secs |-> LET ss == SetToSeq(DOMAIN r.d) IN
                        [i \in 1 .. Len(ss) |-> [name |-> ss[i],
                           kvs |-> LET ks == SetToSeq(DOMAIN r.d[ss[i]]) IN
                                   [j \in 1 .. Len(ks) |-> [key |-> ks[j], kind |-> r.d[ss[i]][ks[j]].k,
                                                             text |-> r.d[ss[i]][ks[j]].t]]]]]
RawCase == [content |-> doc, parsed |-> Summary(Parse(<<doc>>))]
RawStrings2 == UNION {[1 .. n -> RawAlphabet] : n \in 1 .. RawLen}
RawInit2 == doc \in {p \o s : p \in RawPrefixes, s \in RawStrings2}   \* as RawInit, without the empty string
RawSpec2 == RawInit2 /\ [][Next]_doc
EmitRaw == PrintT("@@CASE " \o ToJson(RawCase))
RoundTripInv == RoundTrips(Concrete(doc))
CommentInv == CommentInert(Concrete(doc))
=============================================================================
