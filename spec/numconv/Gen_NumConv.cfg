SPECIFICATION Spec
CONSTANT Positions = {"coalesce", "catchfallback", "ret_after_lit", "closurearg", "append", "let", "assign", "arg", "ret", "field", "optional", "elem"}
INVARIANT EmitCase
CHECK_DEADLOCK FALSE
