SPECIFICATION Spec
CONSTANT Positions = {"let", "assign", "arg", "ret", "field", "optional", "elem"}
INVARIANT EmitCase
CHECK_DEADLOCK FALSE
