SPECIFICATION Spec
CONSTANT Positions = {"let", "assign", "arg", "ret", "field"}
INVARIANT EmitCase
CHECK_DEADLOCK FALSE
