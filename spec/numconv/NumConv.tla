------------------------------ MODULE NumConv ------------------------------
(* C11 — implicit numeric conversions never lose information.

   The judgment Lossless(S, T) is stated from the value sets of the 17 numeric types, not from the
   compiler's table.  Because TLC integers are 32-bit the ranges are handled through exponents; the
   closed forms used for the real widths are themselves checked against a brute-force definition on
   scaled-down widths (FormulaSound below), so the oracle is not taken on trust.

   The enumerator part emits one case per (S, T, position); the driver renders each case to a Ferret
   program, compiles it with the real front end and reports ACCEPT-without-cast of a pair that is
   not Lossless. *)
EXTENDS Integers, Sequences, FiniteSets, TLC, Json

Kinds == {"s", "u", "f", "b"}          \* signed, unsigned, float, byte

Ty(n, k, b) == [n |-> n, k |-> k, b |-> b]

Types == { Ty("i8","s",8), Ty("i16","s",16), Ty("i32","s",32), Ty("i64","s",64),
           Ty("i128","s",128), Ty("i256","s",256),
           Ty("u8","u",8), Ty("u16","u",16), Ty("u32","u",32), Ty("u64","u",64),
           Ty("u128","u",128), Ty("u256","u",256),
           Ty("f32","f",32), Ty("f64","f",64), Ty("f128","f",128), Ty("f256","f",256),
           Ty("byte","b",8) }

(* IEEE-754 binary interchange formats: significand precision p (with hidden bit) and emax. *)
Prec(b) == CASE b = 32 -> 24 [] b = 64 -> 53 [] b = 128 -> 113 [] b = 256 -> 237
Emax(b) == CASE b = 32 -> 127 [] b = 64 -> 1023 [] b = 128 -> 16383 [] b = 256 -> 262143

IsInt(t)   == t.k \in {"s", "u", "b"}
Signed(t)  == t.k = "s"
(* number of magnitude bits of the largest absolute value that needs a full significand *)
MagBits(t) == IF Signed(t) THEN t.b - 1 ELSE t.b

(* int -> int: range inclusion, by exponents *)
IntInInt(S, T) ==
    IF Signed(S) THEN Signed(T) /\ S.b <= T.b
    ELSE IF Signed(T) THEN S.b <= T.b - 1 ELSE S.b <= T.b

(* int -> float with p significand bits and exponent bound e: every integer of at most MagBits
   bits fits iff MagBits <= p (an odd value with the top bit set needs all its bits); the signed
   minimum -2^(b-1) is a power of two and only needs the exponent range. *)
IntInFloatP(mag, signed, bits, p, e) == mag <= p /\ (IF signed THEN bits - 1 ELSE bits - 1) <= e

IntInFloat(S, T) == IntInFloatP(MagBits(S), Signed(S), S.b, Prec(T.b), Emax(T.b))

FloatInFloat(S, T) == Prec(S.b) <= Prec(T.b) /\ Emax(S.b) <= Emax(T.b)

Lossless(S, T) ==
    IF IsInt(S) /\ IsInt(T) THEN IntInInt(S, T)
    ELSE IF IsInt(S) /\ T.k = "f" THEN IntInFloat(S, T)
    ELSE IF S.k = "f" /\ T.k = "f" THEN FloatInFloat(S, T)
    ELSE FALSE                                   \* float -> int always loses (fractions, NaN)

-----------------------------------------------------------------------------
(* Soundness of the closed forms on scaled-down widths, by brute force. *)
RECURSIVE Pow2(_)
Pow2(n) == IF n = 0 THEN 1 ELSE 2 * Pow2(n - 1)
RangeOf(signed, b) == IF signed THEN (-Pow2(b - 1)) .. (Pow2(b - 1) - 1) ELSE 0 .. (Pow2(b) - 1)
Abs(v) == IF v < 0 THEN -v ELSE v
RECURSIVE OddPart(_)
OddPart(v) == IF v = 0 THEN 0 ELSE IF v % 2 = 0 THEN OddPart(v \div 2) ELSE v
RECURSIVE BitLen(_)
BitLen(v) == IF v = 0 THEN 0 ELSE 1 + BitLen(v \div 2)
(* v is representable in a binary float with p significand bits and maximal exponent e *)
Representable(v, p, e) == v = 0 \/ (OddPart(Abs(v)) < Pow2(p) /\ BitLen(Abs(v)) - 1 <= e)

SmallBits == 1 .. 9
FormulaSoundIntInt ==
    \A sb \in SmallBits, tb \in SmallBits, ss \in BOOLEAN, ts \in BOOLEAN :
        LET S == Ty("S", IF ss THEN "s" ELSE "u", sb)
            T == Ty("T", IF ts THEN "s" ELSE "u", tb)
        IN  IntInInt(S, T) <=> (RangeOf(ss, sb) \subseteq RangeOf(ts, tb))
FormulaSoundIntFloat ==
    \A sb \in SmallBits, ss \in BOOLEAN, p \in 1 .. 10, e \in 0 .. 10 :
        IntInFloatP(IF ss THEN sb - 1 ELSE sb, ss, sb, p, e)
            <=> (\A v \in RangeOf(ss, sb) : Representable(v, p, e))

(* Lossless is a preorder on the 17 types, and byte behaves as u8 *)
Reflexive  == \A t \in Types : Lossless(t, t)
Transitive == \A a, b, c \in Types : Lossless(a, b) /\ Lossless(b, c) => Lossless(a, c)
ByteIsU8   == \A t \in Types : LET by == Ty("byte","b",8)  u8 == Ty("u8","u",8)
                               IN  /\ Lossless(by, t) <=> Lossless(u8, t)
                                   /\ Lossless(t, by) <=> Lossless(t, u8)
ASSUME FormulaSoundIntInt
ASSUME FormulaSoundIntFloat
ASSUME Reflexive /\ Transitive /\ ByteIsU8

-----------------------------------------------------------------------------
(* Enumerator: one state per (S, T, position). *)
CONSTANT Positions
(* the shape of the converted expression: a variable of the source type, or an operator expression / call
   whose type is the source type by the typing rules (x / y, x * y, -x and f(x) of operands of type S have type
   S).  The conversion rule looks at the type of the expression, not at its shape. *)
Shapes == {"var", "div", "mul", "call"}
ShapedPositions == {"let", "arg", "ret", "field", "elem"}
VARIABLES s, t, pos, shape
vars == <<s, t, pos, shape>>

Init == s \in Types /\ t \in Types /\ pos \in Positions /\ shape \in Shapes
        /\ (shape # "var" => pos \in ShapedPositions)
Next == UNCHANGED vars
Spec == Init /\ [][Next]_vars

Case == [ src |-> s.n, dst |-> t.n, pos |-> pos, same |-> (s = t), shape |-> shape,
          lossless |-> Lossless(s, t),
          key |-> "C11|" \o s.n \o "->" \o t.n \o "|" \o pos \o (IF shape = "var" THEN "" ELSE "|" \o shape) ]
EmitCase == PrintT("@@CASE " \o ToJson(Case))
=============================================================================
