SPECIFICATION Spec
CONSTANT Positions = {"let", "assign", "arg", "ret", "field", "elem", "fieldassign", "methodarg", "closureret", "compound", "optional", "global"}
INVARIANT EmitCase
CHECK_DEADLOCK FALSE
