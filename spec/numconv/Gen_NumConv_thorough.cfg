SPECIFICATION Spec
CONSTANT Positions = {"let", "assign", "arg", "ret", "field", "elem", "fieldassign", "methodarg", "closureret", "compound", "optional", "global", "optarg", "optret", "optfield", "optassign"}
INVARIANT EmitCase
CHECK_DEADLOCK FALSE
