SPECIFICATION Spec
CONSTANT Positions = {"coalesce", "catchfallback", "ret_after_lit", "ret_in_lit_after_lit", "methodret", "branchret", "closurearg", "append", "elemassign", "let", "assign", "arg", "ret", "field", "elem", "fieldassign", "methodarg", "closureret", "compound", "optional", "global", "optarg", "optret", "optfield", "optassign"}
INVARIANT EmitCase
CHECK_DEADLOCK FALSE
